#!/bin/sh
# rebuild the analyser (offline)
cd "$(dirname "$0")/checker" || exit 2
unset GOWORK GOSUMDB
export GOFLAGS=-mod=mod GOPROXY=off GONOSUMDB='golang.org/x/*' GOTOOLCHAIN=auto
gofmt -w . ; go vet ./... 2>&1 | head -20; go build -o ../bin/icsverif . 
