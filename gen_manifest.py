#!/usr/bin/env python3
# regenerate MANIFEST.json from the list of registered properties in the analyser
import json, subprocess, re, glob, os
props=[json.loads(l) for l in open('/verif/properties.jsonl')]
built=set()
for f in glob.glob('/verif/checker/rules_*.go'):
    for m in re.finditer(r'ID:\s+"(C\d+)"', open(f).read()):
        built.add(m.group(1))
notes={
 'C04':'composition/ordering of the shaping pipeline only; the arithmetic of NoMoreThanPercentOfTheSum is not decided',
}
na_reason={}
checks=[]
for p in props:
    i=p['id']
    if i not in built: 
        na_reason[i]='check under construction (see DESIGN.md section 3); not yet claimed'
        continue
    checks.append({
      "property_id": i,
      "quick_cmd": f"./bin/icsverif check -property {i} -tier quick",
      "thorough_cmd": f"./bin/icsverif check -property {i} -tier thorough",
      "evidence_file": f"/verif/evidence/{i}.json",
      "replay_cmd_template": "./bin/icsverif explain {path}",
      "engine": "icsverif",
      "level_claimed": {"category":"other",
        "text":"Structural necessary conditions of the property decided for all paths and inputs of the functions concerned (guard dominance, value provenance, who-may-call, decision tables, key shapes, effect closures) on /repo's current source; not the run-time behaviour itself. The clauses decided and not decided are listed in the evidence file (coverage.explanation / coverage.not_decided) and in DESIGN.md section 3." + (" "+notes[i] if i in notes else ""),
        "design_ref": f"DESIGN.md section 3, {i}"},
      "level_note": "Trusted: Go type checker and go/ssa construction; static callee resolution; summaries of external modules (CacheContext isolation, msg-router rollback on error, IBC ack semantics, ordered KV iteration); rule tables in checker/rules_*.go confirmed by reading the code.",
      "technique": "static analysis: repository-specific rules over the type-checked SSA/CFG (guard dominance by edge-cut reachability, value-origin patterns, decision-table enumeration, key-shape abstract interpretation, typestate over lifecycle phases, error-origin census)"
    })
m={"version":1,
 "setup_cmd":"./setup.sh",
 "hooks":{"guard":"verif","enable":"none: static analysis executes no repository code, so no hooks exist and nothing is built with the tag","baseline_off_cmd":"cd /repo && GOFLAGS=-mod=mod go test -vet=off -count=1 -timeout 25m ./...","source_commits":[],"add_only":True},
 "engines":[{"name":"icsverif","path":"checker","serves_properties":sorted(built),"kind_free_text":"repository-specific static analyser in Go (go/types + go/ssa from golang.org/x/tools v0.29.0): loads /repo's module packages from source on every run, dependencies from export data; rules per property in checker/rules_cNN.go"}],
 "checks":checks,
 "notes":"All checks are static: they load and type-check /repo's working tree and decide rules on SSA/CFG; no repository code is executed. Known findings are listed in known_findings.json. Thorough tier additionally runs the both-ways self-test corpus (selftest/*.json) through in-memory overlays.",
 "not_applicable":[{"property_id":k,"reason":v} for k,v in sorted(na_reason.items())]}
json.dump(m,open('/verif/MANIFEST.json','w'),indent=1)
print('claimed',sorted(built)); print('not applicable',sorted(na_reason))
