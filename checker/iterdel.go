package main

import (
	"fmt"
	"go/types"

	"golang.org/x/tools/go/ssa"
)

// iterDeleteSites: store.Delete calls in functions that also open a store iterator, with the
// classification of the deleted key.
func iterDeleteSites(P *Prog) (out []iterDel) {
	for _, f := range P.ModuleFuncs("github.com/cosmos/interchain-security/v7/x") {
		if isTestFile(P, f) {
			continue
		}
		hasIt := false
		for _, cl := range AllCalls(f, false) {
			if c, ok := cl.(*ssa.Call); ok && isIteratorCtor(c) {
				hasIt = true
			}
		}
		if !hasIt {
			continue
		}
		for _, d := range Calls(f, false, "store.KVStore.Delete") {
			out = append(out, iterDel{f, d, classifyDeletedKey(arg(d, 0))})
		}
	}
	return
}

type iterDel struct {
	Fn   *ssa.Function
	Del  ssa.CallInstruction
	Kind string
}

func isIteratorCtor(ic *ssa.Call) bool {
	n := calleeName(ic)
	for _, s := range []string{"KVStore.Iterator", "KVStore.ReverseIterator", ".KVStorePrefixIterator", ".KVStoreReversePrefixIterator"} {
		if len(n) >= len(s) && n[len(n)-len(s):] == s {
			return true
		}
	}
	return false
}

// classifyDeletedKey: "iterator-key" (it.Key() directly or collected by append), else a description.
func classifyDeletedKey(k ssa.Value) string {
	if cl, _ := callOf(k); cl != nil && isIteratorKey(cl) {
		return "iterator-key"
	}
	src := elementSource(k)
	if len(src) == 0 {
		return "other: " + describe(k)
	}
	sawAppend := false
	for _, r := range src {
		cl, _ := callOf(r)
		if cl == nil {
			if _, isC := r.(*ssa.Const); isC {
				continue
			}
			if _, isM := r.(*ssa.MakeSlice); isM {
				continue
			}
			if sl, isS := r.(*ssa.Slice); isS {
				if al, isA := sl.X.(*ssa.Alloc); isA {
					if arr, isArr := al.Type().Underlying().(*types.Pointer).Elem().Underlying().(*types.Array); isArr && arr.Len() == 0 {
						continue // empty slice literal
					}
				}
			}
			return "other: element of " + describe(r)
		}
		if !isCallTo(cl, "builtin.append") {
			return "other: element of " + describe(r)
		}
		sawAppend = true
		elems, ok := appendedElems(cl)
		if !ok {
			return "other: append of a slice " + describe(cl)
		}
		for _, e := range elems {
			kc, _ := callOf(e)
			if kc == nil || !isIteratorKey(kc) {
				return "collected: " + describe(e)
			}
		}
	}
	if !sawAppend {
		return "other: " + describe(k)
	}
	return "iterator-key"
}

func isTestFile(P *Prog, f *ssa.Function) bool {
	n := P.fileOf(f)
	return len(n) > 8 && n[len(n)-8:] == "_test.go"
}

func debugIterDel(P *Prog) {
	for _, s := range iterDeleteSites(P) {
		fmt.Printf("%-70s %s  %s\n", shortName(ssaFuncName(s.Fn)), P.InstrPos(s.Del), s.Kind)
	}
}

// checkIterDelete: in the given packages, a function that opens a store iterator and deletes from
// the store deletes the visited entries' own keys (directly or collected by append), and both the
// collecting loop and the deleting loop visit every element.
func checkIterDelete(c *Ctx, floor int, pkgs ...string) {
	n := 0
	for _, s := range iterDeleteSites(c.P) {
		in := false
		for _, p := range pkgs {
			if fnPkgPath(s.Fn) == q(p) {
				in = true
			}
		}
		if !in {
			continue
		}
		n++
		top := topFn(s.Fn)
		c.Check(s.Kind == "iterator-key", fk(top, "bulk-delete", "key-is-entry-key"), s.Del,
			"a function that iterates a key range deletes the visited entries' own keys (iterator.Key()); found "+s.Kind)
		if innermostLoop(s.Del.Block()) != nil {
			c.VisitsAll(s.Del, fk(top, "bulk-delete", "delete-loop"), "deleting loop")
		}
		for _, cl := range AllCalls(s.Fn, false) {
			if k, ok := cl.(*ssa.Call); ok && isIteratorKey(k) && innermostLoop(k.Block()) != nil {
				c.VisitsAll(k, fk(top, "bulk-delete", "collect-loop"), "collecting loop")
				break
			}
		}
	}
	c.Check(n >= floor, "bulk-delete/census", nil, fmt.Sprintf("%d iterate-and-delete sites analysed (at least %d confirmed by hand)", n, floor))
}
