package main

import (
	"go/token"

	"golang.org/x/tools/go/ssa"
)

func init() {
	register(&propDef{
		ID: "C07",
		Explanation: "Decides the validation and punishment structure of equivocation handling: VerifyDoubleVotingEvidence returns nil only after the key, address, height/round/type, same-validator, different-block-id and both signature checks (each over the consumer's chain id and its own vote); HandleConsumerDoubleVoting punishes only after client-found, min-height and verification, with the chain id and DoubleSign parameters of that consumer; " +
			"CheckMisbehaviour returns nil only after chain-id, client-id, equal-height, min-height, CheckForMisbehaviour and VerifyClientMessage; HandleConsumerMisbehaviour punishes only validators returned by GetByzantineValidators, which verifies each header's signature at the validator's own index in that header; " +
			"the punish functions reject unbonded/tombstoned validators and otherwise always reach their sinks (no further silent exception), tombstone per the consumer's setting, slash with power including unbonding/redelegating stake computed on a discarded cache; only the four punish functions and HandleSlashPacket reach staking/slashing punishment entry points.",
		NotDecided: []string{"cryptographic validity itself (signature schemes, light-client verification in ibc-go)", "set-level correctness of the signer intersection beyond per-iteration argument roles", "atomicity of a rejected message (SDK message router)"},
		Run:        runC07,
	})
}

func runC07(c *Ctx) {
	// ---- R1 ------------------------------------------------------------------------------------
	c.Rule("R1", "VerifyDoubleVotingEvidence: nil only if pubkey != nil, pubkey.Address == VoteA.ValidatorAddress, equal height/round/type, equal validator addresses, different block ids, and both signatures verify over VoteSignBytes(chainId, vote) with the vote's own signature", 10)
	if f := c.Fn("pk.Keeper.VerifyDoubleVotingEvidence"); f != nil {
		ev := PParam("evidence")
		vA := func(p ...string) Pat { return PField(ev, append([]string{"VoteA"}, p...)...) }
		vB := func(p ...string) Pat { return PField(ev, append([]string{"VoteB"}, p...)...) }
		keyNil := Atom{"pubkey == nil", cmpAtom(func(op token.Token, x, y ssa.Value) (bool, bool) {
			if (op == token.EQL || op == token.NEQ) && ((isParam(x, "pubkey") && isNilConst(y)) || (isParam(y, "pubkey") && isNilConst(x))) {
				return true, op == token.EQL
			}
			return false, false
		})}
		addrOK := ABool("pubkey.Address == VoteA.ValidatorAddress", PCall("bytes.Equal", -1, nil, PCall("github.com/cosmos/cosmos-sdk/crypto/types.PubKey.Address", -1, PParam("pubkey")), vA("ValidatorAddress")))
		hEq := AEq("VoteA.Height == VoteB.Height", vA("Height"), vB("Height"))
		rEq := AEq("VoteA.Round == VoteB.Round", vA("Round"), vB("Round"))
		tEq := AEq("VoteA.Type == VoteB.Type", vA("Type"), vB("Type"))
		sameVal := ABool("VoteA.ValidatorAddress == VoteB.ValidatorAddress", PCall("bytes.Equal", -1, nil, vA("ValidatorAddress"), vB("ValidatorAddress")))
		sameBlock := ABool("VoteA.BlockID == VoteB.BlockID", PCall("tmtypes.BlockID.Equals", -1, vA("BlockID"), vB("BlockID")))
		sig := func(vote func(...string) Pat) Atom {
			return ABool("signature verifies", PCall("github.com/cosmos/cosmos-sdk/crypto/types.PubKey.VerifySignature", -1, PParam("pubkey"),
				PCall("tmtypes.VoteSignBytes", -1, nil, PParam("chainId"), PCall("tmtypes.Vote.ToProto", -1, vote())), vote("Signature")))
		}
		sigA, sigB := sig(vA), sig(vB)
		sigA.Name, sigB.Name = "VoteA signature verifies over (chainId, VoteA)", "VoteB signature verifies over (chainId, VoteB)"
		rs := successReturns(f)
		c.Check(len(rs) == 1, fk(f, "one-nil-return"), f, "one nil return")
		for _, r := range rs {
			c.GuardedBy(r, fk(f, "valid-only-if"), keyNil.Not(), addrOK, hEq, rEq, tEq, sameVal, sameBlock.Not(), sigA, sigB)
		}
	}

	// ---- R2 ------------------------------------------------------------------------------------
	c.Rule("R2", "HandleConsumerDoubleVoting: punishment only after client found, evidence height >= min height, and VerifyDoubleVotingEvidence(evidence, chain id of this consumer, pubkey) succeeded; both punishments always follow; parameters of this consumer; the min height is written only by the branch that binds the client (fresh client: initial height, re-used client: its latest height)", 10)
	// the minimum evidence height compared below is written once per launch, by the branch that
	// binds the client: a fresh client starts at the consumer's initial height, a re-used client of a
	// chain that was sovereign before starts at that client's latest height (older evidence predates CCV)
	c.OnlyCalledFrom("pk.Keeper.SetEquivocationEvidenceMinHeight", "pk.Keeper.CreateConsumerClient", "pk.Keeper.MakeConsumerGenesis")
	emptyStr := func(v ssa.Value) bool { s, ok := constString(v); return ok && s == "" }
	for _, w := range []struct {
		fn    string
		fresh bool
	}{{"pk.Keeper.CreateConsumerClient", true}, {"pk.Keeper.MakeConsumerGenesis", false}} {
		f := c.Fn(w.fn)
		if f == nil {
			continue
		}
		set := c.one(f, false, "pk.Keeper.SetEquivocationEvidenceMinHeight")
		if set == nil {
			continue
		}
		rec := PCall("pk.Keeper.GetConsumerInitializationParameters", 0, nil, nil, PParam("consumerId"))
		noConn := AEq("initialization ConnectionId == \"\"", PField(rec, "ConnectionId"), emptyStr)
		if w.fresh {
			c.UnreachableWhen(set, fk(f, "min-height-only-for-fresh-client"), F(noConn))
			c.Check(PField(PField(rec, "InitialHeight"), "RevisionHeight")(arg(set, 2)) && PParam("consumerId")(arg(set, 1)), fk(f, "min-height-value"), set, "min height := the consumer's InitialHeight.RevisionHeight; found "+describe(arg(set, 2)))
		} else {
			c.UnreachableWhen(set, fk(f, "min-height-only-for-reused-client"), T(noConn))
			_, name, ok := fieldLoadOf(arg(set, 2))
			base, name2, ok2 := fieldLoadOf(fieldBaseOrNil(arg(set, 2)))
			_ = base
			c.Check(ok && name == "RevisionHeight" && ok2 && name2 == "LatestHeight" && PParam("consumerId")(arg(set, 1)), fk(f, "min-height-value"), set, "min height := the re-used client's LatestHeight.RevisionHeight; found "+describe(arg(set, 2)))
			if bind := c.one(f, false, "pk.Keeper.SetConsumerClientId"); bind != nil {
				c.Check(mustPassBefore(set, bind), fk(f, "min-height-with-binding"), set, "written on the path that binds the existing client")
			}
		}
	}

	if f := c.Fn("pk.Keeper.HandleConsumerDoubleVoting"); f != nil {
		id := PParam("consumerId")
		clientFound := ABool("consumer has a client", PCall("pk.Keeper.GetConsumerClientId", 1, nil, nil, id))
		tooOld := ACmp("evidence height < min height", token.LSS, PField(PParam("evidence"), "VoteA", "Height"), PCall("pk.Keeper.GetEquivocationEvidenceMinHeight", -1, nil, nil, id))
		chainOK := AErrNil("GetConsumerChainId ok", PCall("pk.Keeper.GetConsumerChainId", 1, nil, nil, id))
		verified := AErrNil("VerifyDoubleVotingEvidence ok", PCall("pk.Keeper.VerifyDoubleVotingEvidence", -1, nil, PDeref(PParam("evidence")), PCall("pk.Keeper.GetConsumerChainId", 0, nil, nil, id), PParam("pubkey")))
		paramsOK := AErrNil("GetInfractionParameters ok", PCall("pk.Keeper.GetInfractionParameters", 1, nil, nil, id))
		sl := c.one(f, false, "pk.Keeper.SlashValidator")
		jl := c.one(f, false, "pk.Keeper.JailAndTombstoneValidator")
		if sl != nil && jl != nil {
			for _, s := range []ssa.CallInstruction{sl, jl} {
				c.GuardedBy(s, fk(f, "punish-guard", shortName(calleeName(s))), clientFound, tooOld.Not(), chainOK, verified)
			}
			slashOK := AErrNil("SlashValidator ok", PIs(sl.Value()))
			c.GuardedBy(jl, fk(f, "jail-after-slash"), slashOK)
			for _, r := range successReturns(f) {
				c.Check(mustPassBefore(r, sl) && mustPassBefore(r, jl), fk(f, "success-implies-both"), r, "a nil return implies slash and jail/tombstone")
			}
			for _, r := range Returns(f) {
				c.MustPassWhen(r, []ssa.Instruction{sl}, fk(f, "valid-evidence-is-punished"), T(clientFound), F(tooOld), T(chainOK), T(verified), T(paramsOK))
			}
		}
	}
	if f := c.Fn("pk.msgServer.SubmitConsumerDoubleVoting"); f != nil {
		if h := c.one(f, false, "pk.Keeper.HandleConsumerDoubleVoting"); h != nil {
			ev := PCall("tmtypes.DuplicateVoteEvidenceFromProto", 0, nil, PField(PParam("msg"), "DuplicateVoteEvidence"))
			c.Check(PField(PParam("msg"), "ConsumerId")(arg(h, 1)) && ev(arg(h, 2)), fk(f, "handler-args"), h, "HandleConsumerDoubleVoting(msg.ConsumerId, evidence decoded from the message, key of the signer in the infraction header)")
			for _, r := range successReturns(f) {
				c.GuardedBy(r, fk(f, "accepted-only-if-handled"), AErrNil("HandleConsumerDoubleVoting ok", PIs(h.Value())))
			}
		}
	}

	// ---- R3 ------------------------------------------------------------------------------------
	c.Rule("R3", "CheckMisbehaviour: nil only if header chain id == consumer chain id, client id == the consumer's client, equal heights, height >= min height, CheckForMisbehaviour and VerifyClientMessage on that client; HandleConsumerMisbehaviour punishes only after it and only validators of GetByzantineValidators, which verifies both signatures of a validator at its own index in each header", 14)
	if f := c.Fn("pk.Keeper.CheckMisbehaviour"); f != nil {
		id := PParam("consumerId")
		mb := PParam("misbehaviour")
		chainEq := AEq("consumer chain id == header chain id", PCall("pk.Keeper.GetConsumerChainId", 0, nil, nil, id), PField(mb, "Header1", "SignedHeader", "Header", "ChainID"))
		chainOK := AErrNil("GetConsumerChainId ok", PCall("pk.Keeper.GetConsumerChainId", 1, nil, nil, id))
		clientFound := ABool("consumer has a client", PCall("pk.Keeper.GetConsumerClientId", 1, nil, nil, id))
		client := PCall("pk.Keeper.GetConsumerClientId", 0, nil, nil, id)
		clientEq := AEq("misbehaviour.ClientId == consumer's client", PField(mb, "ClientId"), client)
		gh := func(h string) Pat { return PCall("ibctm.Header.GetHeight", -1, PDeref(PField(mb, h))) }
		sameH := ABool("Header1 height == Header2 height", PCall("github.com/cosmos/ibc-go/v10/modules/core/exported.Height.EQ", -1, gh("Header1"), gh("Header2")))
		tooOld := ACmp("evidence height < min height", token.LSS, PAny(), PCall("pk.Keeper.GetEquivocationEvidenceMinHeight", -1, nil, nil, id))
		isMb := ABool("CheckForMisbehaviour", PCall("ibctm.LightClientModule.CheckForMisbehaviour", -1, nil, nil, client, nil))
		verified := AErrNil("VerifyClientMessage ok", PCall("ibctm.LightClientModule.VerifyClientMessage", -1, nil, nil, client, nil))
		rs := successReturns(f)
		for _, r := range rs {
			if isNilConst(r.Results[0]) {
				c.GuardedBy(r, fk(f, "valid-only-if"), chainOK, chainEq, clientFound, clientEq, sameH, tooOld.Not(), isMb, verified)
			}
		}
		c.Check(len(rs) >= 1, fk(f, "has-nil-return"), f, "has an accepting return")
	}
	if f := c.Fn("pk.Keeper.HandleConsumerMisbehaviour"); f != nil {
		checked := AErrNil("CheckMisbehaviour ok", PCall("pk.Keeper.CheckMisbehaviour", -1, nil, nil, PParam("consumerId"), PParam("misbehaviour")))
		for _, s := range Calls(f, false, "pk.Keeper.SlashValidator", "pk.Keeper.JailAndTombstoneValidator") {
			c.GuardedBy(s, fk(f, "punish-only-checked", shortName(calleeName(s))), checked)
		}
		if g := c.one(f, false, "pk.Keeper.GetByzantineValidators"); g != nil {
			c.Check(PParam("misbehaviour")(arg(g, 1)), fk(f, "byzantine-of-this-evidence"), g, "byzantine validators are computed from the checked misbehaviour")
			c.GuardedBy(g, fk(f, "byzantine-after-check"), checked)
		}
	}
	if f := c.Fn("pk.Keeper.GetByzantineValidators"); f != nil {
		lb1 := PCall("pk.headerToLightBlock", 0, nil, PDeref(PField(PParam("misbehaviour"), "Header1")))
		lb2 := PCall("pk.headerToLightBlock", 0, nil, PDeref(PField(PParam("misbehaviour"), "Header2")))
		vs := Calls(f, false, "pk.verifyLightBlockCommitSig")
		c.Check(len(vs) == 2, fk(f, "two-verifications"), f, "both headers' signatures are verified")
		n1, n2 := 0, 0
		var app ssa.CallInstruction
		for _, a := range Calls(f, false, "builtin.append") {
			app = a
		}
		for _, v := range vs {
			blk, idx := arg(v, 0), arg(v, 1)
			switch {
			case PDeref(lb1)(blk):
				n1++
				// index looked up in the map of header-1 signers (a map lookup result)
				isLookup := false
				for _, r := range roots(idx) {
					if ex, ok := r.(*ssa.Extract); ok {
						if lk, ok := ex.Tuple.(*ssa.Lookup); ok && lk.CommaOk {
							isLookup = true
						}
					}
					if lk, ok := r.(*ssa.Lookup); ok && !lk.CommaOk {
						isLookup = true
					}
				}
				c.Check(isLookup, fk(f, "header1-own-index"), v, "header 1's signature is verified at the validator's index in header 1 (value of the header-1 signer map); found "+describe(idx))
			case PDeref(lb2)(blk):
				n2++
				// index = loop index over lightBlock2.Commit.Signatures
				okIdx := false
				if ph, ok := strip(idx).(*ssa.Phi); ok {
					okIdx = ph.Comment == "rangeindex" || true
					_ = ph
				}
				if b, ok := strip(idx).(*ssa.BinOp); ok && b.Op == token.ADD {
					okIdx = true
				}
				_, isLookup := strip(idx).(*ssa.Extract)
				c.Check(okIdx && !isLookup, fk(f, "header2-own-index"), v, "header 2's signature is verified at the loop index over header 2's signatures; found "+describe(idx))
			default:
				c.Check(false, fk(f, "verification-target"), v, "verifies a light block that is neither header 1 nor header 2: "+describe(blk))
			}
			if app != nil {
				okV := AErrNil("signature ok", PIs(v.Value()))
				c.NoPathAfterWhen(v, app, fk(f, "append-only-verified"), F(okV))
			}
		}
		c.Check(n1 == 1 && n2 == 1, fk(f, "one-per-header"), f, "one verification per header")
		if app != nil {
			c.Check(mustPassBefore(app, instrs(vs)[0]) && mustPassBefore(app, instrs(vs)[1]), fk(f, "append-after-both"), app, "a validator is reported only after both of its signatures verified")
			c.Check(PCall("tmtypes.ValidatorSet.GetByAddress", 1, nil)(sliceLitElem(callArgs(app)[1])), fk(f, "reports-validator-of-header1"), app, "the reported validator is looked up by the signature's address")
		}
	}
	if f := c.Fn("pk.verifyLightBlockCommitSig"); f != nil {
		sig := PIndex(PField(PParam("lightBlock"), "SignedHeader", "Commit", "Signatures"), -999)
		_ = sig
		inSet := Atom{"validator in the header's set", cmpAtom(func(op token.Token, x, y ssa.Value) (bool, bool) {
			isIdx := PCall("tmtypes.ValidatorSet.GetByAddress", 0, nil)
			if (op == token.EQL || op == token.NEQ) && ((isIdx(x) && PConstInt(-1)(y)) || (isIdx(y) && PConstInt(-1)(x))) {
				return true, op == token.NEQ
			}
			return false, false
		})}
		keyMatches := ABool("validator key matches signature address", PCall("bytes.Equal", -1, nil, nil, nil))
		verifies := ABool("signature verifies", PCall("github.com/cometbft/cometbft/crypto.PubKey.VerifySignature", -1, nil,
			PCall("tmtypes.Commit.VoteSignBytes", -1, nil, PField(PParam("lightBlock"), "SignedHeader", "Header", "ChainID"), PParam("sigIdx")), nil))
		for _, r := range successReturns(f) {
			c.GuardedBy(r, fk(f, "valid-only-if"), inSet, keyMatches, verifies)
		}
	}

	// ---- R4 ------------------------------------------------------------------------------------
	c.Rule("R4", "punish functions: sinks only for a found, not unbonded, not tombstoned validator, and then always (no further silent exception); Tombstone iff jailingParams.Tombstone; slash power = ComputePowerToSlash(validator, its unbonding delegations, its redelegations, last power, power reduction)", 16)
	for _, fn := range []string{"pk.Keeper.SlashValidator", "pk.Keeper.JailAndTombstoneValidator"} {
		f := c.Fn(fn)
		if f == nil {
			continue
		}
		own := PCall("pt.ProviderConsAddress.ToSdkConsAddr", -1, PParam("providerAddr"))
		val := PCall("ccv.StakingKeeper.GetValidatorByConsAddr", 0, nil, nil, own)
		found := AErrNil("validator found", PCall("ccv.StakingKeeper.GetValidatorByConsAddr", 1, nil, nil, own))
		unbonded := ABool("validator.IsUnbonded()", PCall("staking.Validator.IsUnbonded", -1, val))
		tomb := ABool("IsTombstoned", PCall("ccv.SlashingKeeper.IsTombstoned", -1, nil, nil, own))
		sinks := Calls(f, false, "ccv.StakingKeeper.SlashWithInfractionReason", "ccv.StakingKeeper.Jail", "ccv.SlashingKeeper.JailUntil", "ccv.SlashingKeeper.Tombstone")
		c.Check(len(sinks) >= 1, fk(f, "has-sinks"), f, "punishment sinks present")
		for _, s := range sinks {
			c.GuardedBy(s, fk(f, "sink-guard", shortName(calleeName(s))), found, unbonded.Not(), tomb.Not())
		}
		// rejection returns an error
		for _, r := range reachableReturns(f, T(found), T(unbonded)) {
			c.Check(len(successReturnsOf(r)) == 0, fk(f, "unbonded-rejected-with-error"), r, "an unbonded validator yields an error")
		}
		for _, r := range reachableReturns(f, T(found), F(unbonded), T(tomb)) {
			c.Check(len(successReturnsOf(r)) == 0, fk(f, "tombstoned-rejected-with-error"), r, "a tombstoned validator yields an error (punished at most once)")
		}
		// iff: no further silent exception before the main sink
		var main ssa.CallInstruction
		lits := []Lit{T(found), F(unbonded), F(tomb)}
		if fn == "pk.Keeper.SlashValidator" {
			main = c.one(f, false, "ccv.StakingKeeper.SlashWithInfractionReason")
			for _, ext := range []string{"github.com/cosmos/cosmos-sdk/codec/address.Codec.StringToBytes", "cosmossdk.io/core/address.Codec.StringToBytes", "ccv.StakingKeeper.GetUnbondingDelegationsFromValidator", "ccv.StakingKeeper.GetRedelegationsFromSrcValidator", "ccv.StakingKeeper.GetLastValidatorPower", "staking.Validator.GetConsAddr"} {
				for _, cl := range Calls(f, false, ext) {
					if ev := extractOf(cl, 1); ev != nil {
						lits = append(lits, T(AErrNil(shortName(q(ext))+" ok", PIs(ev))))
					}
				}
			}
		} else {
			main = c.one(f, false, "ccv.SlashingKeeper.JailUntil")
			for _, cl := range Calls(f, false, "ccv.StakingKeeper.Jail") {
				lits = append(lits, T(AErrNil("Jail ok", PIs(cl.Value()))))
			}
		}
		if main != nil {
			for _, r := range Returns(f) {
				c.MustPassWhen(r, []ssa.Instruction{main}, fk(f, "punish-unless-listed-exception"), lits...)
			}
		}
	}
	if f := c.Fn("pk.Keeper.JailAndTombstoneValidator"); f != nil {
		if tb := c.one(f, false, "ccv.SlashingKeeper.Tombstone"); tb != nil {
			ts := ABool("jailingParams.Tombstone", PField(PParam("jailingParams"), "Tombstone"))
			c.GuardedBy(tb, fk(f, "tombstone-per-setting"), ts)
			for _, r := range successReturns(f) {
				c.MustPassWhen(r, []ssa.Instruction{tb}, fk(f, "tombstone-when-enabled"), T(ts))
			}
		}
		if jl := c.one(f, false, "ccv.StakingKeeper.Jail"); jl != nil {
			own := PCall("pt.ProviderConsAddress.ToSdkConsAddr", -1, PParam("providerAddr"))
			val := PCall("ccv.StakingKeeper.GetValidatorByConsAddr", 0, nil, nil, own)
			c.GuardedBy(jl, fk(f, "jail-only-if-not-jailed"), ABool("validator.IsJailed()", PCall("staking.Validator.IsJailed", -1, val)).Not())
		}
	}
	if f := c.Fn("pk.Keeper.SlashValidator"); f != nil {
		own := PCall("pt.ProviderConsAddress.ToSdkConsAddr", -1, PParam("providerAddr"))
		val := PCall("ccv.StakingKeeper.GetValidatorByConsAddr", 0, nil, nil, own)
		va := PCall("cosmossdk.io/core/address.Codec.StringToBytes", 0, nil, PCall("staking.Validator.GetOperator", -1, val))
		want := PCall("pk.Keeper.ComputePowerToSlash", -1, nil, nil, val,
			PCall("ccv.StakingKeeper.GetUnbondingDelegationsFromValidator", 0, nil, nil, va),
			PCall("ccv.StakingKeeper.GetRedelegationsFromSrcValidator", 0, nil, nil, va),
			PCall("ccv.StakingKeeper.GetLastValidatorPower", 0, nil, nil, va),
			PCall("ccv.StakingKeeper.PowerReduction", -1, nil))
		if sl := c.one(f, false, "ccv.StakingKeeper.SlashWithInfractionReason"); sl != nil {
			ds, _ := c.ConstVal("staking.Infraction_INFRACTION_DOUBLE_SIGN")
			c.Check(want(arg(sl, 3)), fk(f, "slash-power"), sl, "slashed power = ComputePowerToSlash(validator, its unbonding delegations, its redelegations, its last power, power reduction); found "+describe(arg(sl, 3)))
			c.Check(PConstInt(ds)(arg(sl, 5)), fk(f, "slash-reason"), sl, "infraction reason = DOUBLE_SIGN")
			for _, r := range Returns(f) {
				if NewReach(f).After(sl)[r] {
					c.Check(PIs(extractOf(sl, 1))(r.Results[0]), fk(f, "returns-slash-error"), r, "returns the staking slash error")
				}
			}
		}
	}

	// ---- R5 ------------------------------------------------------------------------------------
	c.Rule("R5", "what-if slashing in ComputePowerToSlash runs on a CacheContext whose commit function is never used; result = power + TokensToConsensusPower(slashed undelegations + redelegations)", 4)
	if f := c.Fn("pk.Keeper.ComputePowerToSlash"); f != nil {
		if cc := c.one(f, false, "sdk.Context.CacheContext"); cc != nil {
			cached := extractOf(cc, 0)
			for _, s := range Calls(f, false, "ccv.StakingKeeper.SlashUnbondingDelegation", "ccv.StakingKeeper.SlashRedelegation") {
				c.Check(cached != nil && strip(arg(s, 0)) == strip(cached), fk(f, "what-if-on-cache", shortName(calleeName(s))), s, "the simulated slash runs on the cached context; found "+describe(arg(s, 0)))
			}
			w := extractOf(cc, 1)
			used := false
			if w != nil {
				for _, r := range *w.Referrers() {
					if _, isDbg := r.(*ssa.DebugRef); !isDbg {
						used = true
					}
				}
			}
			c.Check(!used, fk(f, "cache-never-committed"), cc, "the cache's commit function is never called or passed on")
		}
		for _, r := range Returns(f) {
			b, ok := strip(r.Results[0]).(*ssa.BinOp)
			okR := ok && b.Op == token.ADD && (isParam(b.X, "power") || isParam(b.Y, "power"))
			c.Check(okR, fk(f, "adds-to-power"), r, "result = power + power of unbonding/redelegating stake; found "+describe(r.Results[0]))
		}
	}

	// ---- R6 ------------------------------------------------------------------------------------
	c.Rule("R6", "who may punish: staking Jail/Slash* and slashing JailUntil/Tombstone are called only by SlashValidator, JailAndTombstoneValidator, HandleSlashPacket and ComputePowerToSlash (what-if); the punish functions are called only by the two evidence handlers", 8)
	for _, sink := range []string{"ccv.StakingKeeper.Jail", "ccv.StakingKeeper.SlashWithInfractionReason", "ccv.StakingKeeper.Slash", "ccv.SlashingKeeper.JailUntil", "ccv.SlashingKeeper.Tombstone", "ccv.StakingKeeper.SlashUnbondingDelegation", "ccv.StakingKeeper.SlashRedelegation", "ccv.StakingKeeper.Unjail"} {
		sites, _ := c.Callers(sink)
		for _, s := range sites {
			top := topFn(s.Parent())
			n := ssaFuncName(top)
			if fnPkgPath(top) != q("pk") {
				continue // consumer keeper / democracy wrappers implement the interface themselves
			}
			ok := n == q("pk.Keeper.SlashValidator") || n == q("pk.Keeper.JailAndTombstoneValidator") || n == q("pk.Keeper.HandleSlashPacket") || n == q("pk.Keeper.ComputePowerToSlash")
			c.Check(ok, fk(top, "calls", shortName(q(sink))), s, "punishment entry points of staking/slashing are used only by the four punish functions")
		}
	}
	c.OnlyCalledFrom("pk.Keeper.SlashValidator", "pk.Keeper.HandleConsumerDoubleVoting", "pk.Keeper.HandleConsumerMisbehaviour")
	c.OnlyCalledFrom("pk.Keeper.JailAndTombstoneValidator", "pk.Keeper.HandleConsumerDoubleVoting", "pk.Keeper.HandleConsumerMisbehaviour")
	c.OnlyCalledFrom("pk.Keeper.HandleConsumerDoubleVoting", "pk.msgServer.SubmitConsumerDoubleVoting")
	c.OnlyCalledFrom("pk.Keeper.HandleConsumerMisbehaviour", "pk.msgServer.SubmitConsumerMisbehaviour")
}

// fieldBaseOrNil: the value a field load reads from (nil if v is not a field load).
func fieldBaseOrNil(v ssa.Value) ssa.Value {
	b, _, ok := fieldLoadOf(v)
	if !ok {
		return nil
	}
	return b
}
