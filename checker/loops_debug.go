package main

import (
	"fmt"
	"sort"

	"golang.org/x/tools/go/ssa"
)

// debugLoops: census of loops with early exits (other than panic / definite error return).
func debugLoops(P *Prog) {
	var lines []string
	total := 0
	for _, f := range P.ModuleFuncs("github.com/cosmos/interchain-security/v7/x") {
		for _, fn := range []*ssa.Function{f} {
			seen := map[*ssa.BasicBlock]bool{}
			for _, b := range fn.Blocks {
				l := innermostLoop(b)
				if l == nil || seen[l.Header] {
					continue
				}
				seen[l.Header] = true
				total++
				for _, e := range l.exits() {
					if e.from == l.Header || leadsOnlyToPanic(e.to) || leadsOnlyToErrorReturn(e.to) {
						continue
					}
					last := e.from.Instrs[len(e.from.Instrs)-1]
					lines = append(lines, fmt.Sprintf("%s: %s header=%s", P.InstrPos(last), ssaFuncName(f), l.Header.Comment))
				}
			}
		}
	}
	sort.Strings(lines)
	for _, l := range lines {
		fmt.Println(l)
	}
	fmt.Printf("%d loops, %d early exits\n", total, len(lines))
	for _, f := range P.ModuleFuncs("pk", "ck") {
		if isTestFile(P, f) || f.Parent() != nil || !(len(f.Name()) > 6 && f.Name()[:6] == "GetAll") {
			continue
		}
		for _, a := range Calls(f, false, "builtin.append") {
			if inLoop(a) {
				fmt.Printf("collector %-55s append every-iteration=%v\n", shortName(ssaFuncName(f)), everyIteration(a))
			}
		}
	}
	for _, f := range P.ModuleFuncs("github.com/cosmos/interchain-security/v7/x") {
		if isTestFile(P, f) {
			continue
		}
		for _, cf := range carriedState(f) {
			u := "clean"
			if cf.Use != nil {
				u = "CONSUMED at " + P.InstrPos(cf.Use)
			}
			fmt.Printf("carried %-60s %s id=%s %s\n", shortName(ssaFuncName(f)), cf.Phi.Comment, cf.IdDesc, u)
		}
	}
}
