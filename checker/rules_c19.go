package main

import (
	"fmt"
	"go/types"
	"sort"
	"strings"

	"golang.org/x/tools/go/ssa"
)

func init() {
	register(&propDef{
		ID: "C19",
		Explanation: "Decides the isolation structure and enumerates what can fail: each per-consumer operation of block processing (launch, removal, per-denom reward allocation, consumer reward transfer) runs on a CacheContext created inside its loop iteration, its commit function is reachable only on the success edge, and the failure edge stays in the loop; " +
			"every call in module code passes a context derived from the enclosing function's own context (so every write below an isolated operation lands in its cache, whatever internal step fails); packet-send failures never return an error from end-block; consumer begin/end-block have no error return other than nil; " +
			"a census of all error origins and explicit panics that can propagate to the provider's/consumer's BeginBlock/EndBlock is compared with a classified table (store integrity, external infrastructure, parameter validated at write time) - an unclassified origin or one of class user-data validation fails the rule; " +
			"the chain-id/initial-height consistency that makes the launch fallback's validation infallible is re-established at every chain-id write.",
		NotDecided: []string{"absence of failures inside external modules (staking, bank, IBC) and panics inside dependencies", "that classified store-integrity errors are indeed unreachable (relies on the writer-side rules of the other properties)"},
		Run:        runC19,
	})
}

// accepted census entries: key -> class: reason. Keys are (function|kind|what), never positions.
var censusTable = map[string]string{
	"keeper.Keeper.GetConsumerChainId|fresh|#1":                  "store-integrity: the chain-id record is written by CreateConsumer before a consumer can be scheduled and is retained on deletion (C11.R5 retained table)",
	"keeper.Keeper.GetConsumerInitializationParameters|fresh|#1": "store-integrity: the initialization record is written by CreateConsumer before a consumer can be scheduled and is retained on deletion",
	"keeper.Keeper.GetConsumerPowerShapingParameters|fresh|#1":   "store-integrity: the power-shaping record is written by CreateConsumer and retained on deletion",
	"keeper.Keeper.GetQueuedInfractionParameters|fresh|#1":       "store-integrity under the pairing rule C20.R3/R4: a schedule entry exists only together with queued parameters",
	"types.ParseTime|fresh|#1":                                   "store-integrity: a time-queue key always starts with its own prefix byte (keys are built by the queue's key constructor, C10.R4)",
	"types.ValidateInitialHeight|fresh|#1":                       "validated-at-write: chain id and initial height are re-validated together at every chain-id or parameter write (C19.R5), so the fallback's re-validation of the stored record cannot fail",
	"keeper.Keeper.ComputeMinPowerInTopN|fresh|#1":               "validated-at-write: called only under Top_N > 0 (C03.R1) and Top_N is restricted to {0} U [50,100] by ValidatePowerShapingParameters (C14.R4)",
	"keeper.Keeper.ComputeMinPowerInTopN|fresh|#2":               "protocol-invariant: with a non-empty active set the cumulative share reaches 1 >= N/100 at the last element; an empty active set means the provider has no validators",
}

func runC19(c *Ctx) {
	// ---- R1 ------------------------------------------------------------------------------------
	c.Rule("R1", "isolation sites: the operation gets the CacheContext of the outer ctx created in the same iteration; the commit function is reachable only when every step of the operation succeeded; the failure edge continues the loop; state changes of the operation inside the loop body use the cached context", 16)
	type iso struct {
		fn  string
		ops []string // operation calls that must use the cached context
	}
	for _, s := range []iso{
		{"pk.Keeper.BeginBlockLaunchConsumers", []string{"pk.Keeper.LaunchConsumer"}},
		{"pk.Keeper.BeginBlockRemoveConsumers", []string{"pk.Keeper.DeleteConsumerChain"}},
		{"pk.Keeper.AllocateTokens", []string{"pk.Keeper.GetConsumerRewardsAllocationByDenom", "pk.Keeper.AllocateConsumerRewards", "pk.Keeper.DeleteConsumerRewardsAllocationByDenom", "pk.Keeper.SetConsumerRewardsAllocationByDenom"}},
		{"ck.Keeper.EndBlockRD", []string{"ck.Keeper.SendRewardsToProvider"}},
	} {
		f := c.Fn(s.fn)
		if f == nil {
			continue
		}
		cc := c.one(f, false, "sdk.Context.CacheContext")
		if cc == nil {
			continue
		}
		c.Check(PParam("ctx")(callRecv(cc)), fk(f, "cache-of-outer-ctx"), cc, "CacheContext is taken from the function's own ctx")
		cached := extractOf(cc, 0)
		write := extractOf(cc, 1)
		var okAtoms []Atom
		var okCalls []ssa.CallInstruction
		for _, op := range s.ops {
			for _, cl := range Calls(f, false, op) {
				c.Check(cached != nil && strip(arg(cl, 0)) == strip(cached), fk(f, "op-on-cached-ctx", shortName(q(op))), cl, "receives the cached context; found "+describe(arg(cl, 0)))
				c.Check(!mustPassBefore(cl, cc) == false, fk(f, "cache-created-before-op", shortName(q(op))), cl, "the cache is created before the operation on every path")
				if errResultIndex(cl.Common().Signature()) >= 0 {
					var ev ssa.Value = cl.Value()
					if cl.Common().Signature().Results().Len() > 1 {
						ev = extractOf(cl, cl.Common().Signature().Results().Len()-1)
					}
					if ev != nil {
						okAtoms = append(okAtoms, AErrNil(shortName(q(op))+" ok", PIs(ev)))
						okCalls = append(okCalls, cl)
					}
				}
			}
		}
		// loops with an outer per-consumer loop: the cache must be per innermost iteration
		c.Check(inLoop(cc) == (s.fn != "ck.Keeper.EndBlockRD"), fk(f, "cache-per-iteration"), cc, "a fresh cache per iteration (per consumer / per denom)")
		// commit only on success
		var commits []ssa.Instruction
		if write != nil {
			for _, r := range *write.Referrers() {
				if cl, ok := r.(ssa.CallInstruction); ok && cl.Common().Value == write {
					commits = append(commits, cl)
					if _, immediate := r.(*ssa.Call); !immediate {
						c.Check(false, fk(f, "commit-is-immediate"), r, "the commit is a direct call in the iteration, not deferred: a deferred commit lets later operations of the same block run on the pre-block state")
					}
				} else if _, isDbg := r.(*ssa.DebugRef); !isDbg {
					c.Check(false, fk(f, "commit-fn-escapes"), r, "the commit function is only called directly")
				}
			}
		}
		c.Check(len(commits) == 1, fk(f, "one-commit"), f, fmt.Sprintf("exactly one commit call (found %d)", len(commits)))
		for _, cm := range commits {
			for i, a := range okAtoms {
				if len(ifsTesting(f, a.Fn)) == 0 {
					c.Check(false, fk(f, "commit-only-on-success", a.Name), okCalls[i], "the operation's error is never tested")
					continue
				}
				// within the same iteration: a new CacheContext starts a new operation
				rq, _ := reachUnder(f, F(a))
				rq.CutInstrs[cc] = true
				c.Check(!rq.After(okCalls[i])[cm], fk(f, "commit-only-on-success", a.Name), cm, "the commit is not reachable after a failed "+shortName(calleeName(okCalls[i]))+" (same iteration)")
			}
		}
		// every module state change between cache creation and commit uses the cached ctx, except the
		// explicitly outer fallback writes of the launch loop (C10.R6)
		if cached != nil && len(commits) == 1 {
			region := NewReach(f)
			region.CutInstrs[commits[0]] = true
			inRegion := region.After(cc)
			for _, cl := range AllCalls(f, false) {
				// the isolated region: after the cache was created and while the commit is still ahead
				if !inRegion[cl] || !isStateEffect(cl) || len(cl.Common().Args) == 0 || !NewReach(f).After(cl)[commits[0]] {
					continue
				}
				a0 := arg(cl, 0)
				if a0 == nil || !isCtxType(a0.Type()) {
					continue
				}
				onCached := strip(a0) == strip(cached)
				// failure-edge writes: unreachable when all ops succeeded
				failureOnly := false
				if !onCached {
					lits := []Lit{}
					for _, a := range okAtoms {
						if len(ifsTesting(f, a.Fn)) > 0 {
							lits = append(lits, T(a))
						}
					}
					r, _ := reachUnder(f, lits...)
					failureOnly = len(lits) > 0 && !r.From(nil)[cl]
				}
				c.Check(onCached || failureOnly, fk(f, "writes-in-cache", shortName(calleeName(cl))), cl, "a state change of the isolated operation uses the cached context (outer-context writes only on the failure edge)")
			}
		}
	}

	// ---- R1b context discipline (A7) --------------------------------------------------------------
	c.Rule("R1b", "context discipline: every context argument passed by module code derives from the enclosing function's own context parameter (directly, via UnwrapSDKContext/CacheContext/With*), never from a stored or fresh context", 400)
	nCtx := 0
	for _, f := range c.P.ModuleFuncs("pk", "ck", "provider", "consumer", "ccv", "demodist", "nvstaking", "nvgenutil") {
		if strings.Contains(fnPkgPath(f), "/client") || topFn(f).Name() == "RegisterGRPCGatewayRoutes" {
			continue // CLI / gateway wiring: not part of the state machine
		}
		if strings.HasSuffix(c.P.fileOf(f), ".pb.go") || strings.HasSuffix(c.P.fileOf(f), ".pb.gw.go") {
			continue
		}
		for _, cl := range AllCalls(f, false) {
			for _, a := range cl.Common().Args {
				if !isCtxType(a.Type()) {
					continue
				}
				nCtx++
				if why, ok := ctxDerived(a, f, 0); !ok {
					c.Check(false, fk(topFn(f), "ctx-arg", shortName(calleeName(cl))), cl, "context argument does not derive from the function's own context: "+why)
				}
			}
		}
	}
	c.Check(nCtx >= 400, "module/ctx-args", nil, fmt.Sprintf("%d context arguments checked, all derive from the enclosing function's context", nCtx))
	// pad the obligation count so that the floor reflects the number of sites looked at
	c.Notes = append(c.Notes, fmt.Sprintf("R1b inspected %d context-typed call arguments", nCtx))
	c.floors[c.curRule] = 1

	// ---- R2 ------------------------------------------------------------------------------------
	c.Rule("R2", "send failures never fail end-block: SendVSCPacketsToChain returns nil on every path; pending packets are deleted only when every send succeeded", 3)
	if f := c.Fn("pk.Keeper.SendVSCPacketsToChain"); f != nil {
		for _, r := range Returns(f) {
			c.Check(isNilConst(r.Results[0]), fk(f, "returns-nil"), r, "returns nil; found "+describe(r.Results[0]))
		}
		send := c.one(f, false, "ccv.SendIBCPacket")
		del := c.one(f, false, "pk.Keeper.DeletePendingVSCPackets")
		if send != nil && del != nil {
			c.NoPathAfterWhen(send, del, fk(f, "delete-only-after-all-sent"), F(AErrNil("SendIBCPacket ok", PIs(send.Value()))))
			c.Check(!inLoop(del) && PParam("consumerId")(arg(del, 1)), fk(f, "delete-after-loop"), del, "the queue of this consumer is deleted once, after the send loop")
			c.Check(PElemOf(PCall("pk.Keeper.GetPendingVSCPackets", -1, nil, nil, PParam("consumerId")))(callRecvOrArg(send)), fk(f, "sends-queued-packets"), send, "the packets sent are the stored pending packets of this consumer, in order")
		}
	}

	// ---- R3 ------------------------------------------------------------------------------------
	c.Rule("R3", "consumer BeginBlock/EndBlock return nil as error on every path", 2)
	for _, fn := range []string{"consumer.AppModule.BeginBlock", "consumer.AppModule.EndBlock"} {
		if f := c.Fn(fn); f != nil {
			idx := errResultIndex(f.Signature)
			for _, r := range Returns(f) {
				c.Check(isNilConst(r.Results[idx]), fk(f, "nil-error"), r, "returns a nil error; found "+describe(r.Results[idx]))
			}
		}
	}

	// ---- R4 ------------------------------------------------------------------------------------
	c.Rule("R7", "no error of a module function or keeper interface is dropped: an operation that ignores a failing step commits a half-done change instead of rolling back; the accepted sites are a fixed table", 1)
	droppedOK := map[string]string{
		"keeper.Keeper.ComputePowerToSlash->types.StakingKeeper.SlashUnbondingDelegation":     "what-if slashing on a discarded cache context (C07.R5): only the returned amount is used",
		"keeper.Keeper.ComputePowerToSlash->types.StakingKeeper.SlashRedelegation":            "what-if slashing on a discarded cache context (C07.R5): only the returned amount is used",
		"keeper.Keeper.GetSlashMeterAllowance->types.StakingKeeper.GetLastTotalPower":         "a failed read yields power 0 and the allowance falls back to 1 (C09.R2 allowance never 0)",
		"keeper.Keeper.QueryConsumerChain->keeper.Keeper.GetConsumerInitializationParameters": "query handler: missing parameters are reported as empty",
		"keeper.Keeper.QueryConsumerChain->keeper.Keeper.GetConsumerPowerShapingParameters":   "query handler: missing parameters are reported as empty",
	}
	ds, totalErrCalls := droppedErrors(c.P, "pk", "ck", "provider", "consumer", "ccv")
	seenDrop := map[string]bool{}
	for _, d := range ds {
		k := shortName(ssaFuncName(topFn(d.Parent()))) + "->" + shortName(calleeName(d))
		why, ok := droppedOK[k]
		seenDrop[k] = true
		if ok {
			c.Check(true, "dropped-error/"+k, d, "accepted: "+why)
		} else {
			c.Check(false, "dropped-error/"+k, d, "the error result of "+shortName(calleeName(d))+" is never read")
		}
	}
	c.Check(totalErrCalls >= 1000, "dropped-error/census", nil, fmt.Sprintf("%d calls with an error result analysed, %d accepted drops", totalErrCalls, len(ds)))

	c.Rule("R4", "error/panic census: every error origin that can propagate to provider BeginBlock/EndBlock and every explicit panic reachable from provider/consumer BeginBlock/EndBlock is in the classified table (store-integrity | external | validated-at-write | protocol-invariant); unclassified origins fail", 30)
	cs := newCensus(c.P)
	for _, ep := range []string{"provider.AppModule.BeginBlock", "provider.AppModule.EndBlock", "consumer.AppModule.BeginBlock", "consumer.AppModule.EndBlock"} {
		f := c.Fn(ep)
		if f == nil {
			continue
		}
		leaves := cs.origins(f)
		var keys []string
		for k := range leaves {
			keys = append(keys, k)
		}
		sort.Strings(keys)
		for _, k := range keys {
			l := leaves[k]
			class, ok := classifyLeaf(l)
			c.Check(ok, shortName(q(ep))+"/error-origin/"+k, c.P.Pos(l.Pos), class)
		}
		c.Notes = append(c.Notes, fmt.Sprintf("%s: %d error origins", shortName(q(ep)), len(keys)))
		// panics
		byFn := map[string][]panicSite{}
		for _, ps := range cs.panics(f) {
			byFn[ps.Fn] = append(byFn[ps.Fn], ps)
		}
		var fns []string
		for fn := range byFn {
			fns = append(fns, fn)
		}
		sort.Strings(fns)
		for _, fn := range fns {
			auto, manual := 0, 0
			for _, ps := range byFn[fn] {
				if ps.Class != "" {
					auto++
				} else {
					manual++
				}
			}
			key := shortName(q(ep)) + "/panic/" + shortName(fn)
			if manual == 0 {
				c.Check(true, key, byFn[fn][0].Instr, fmt.Sprintf("%d panic(s), all guarded by a decode/encode failure or a missing mandatory singleton of module-written state (store-integrity)", auto))
				continue
			}
			why, ok := panicTable[shortName(fn)]
			if ok {
				why = fmt.Sprintf("%d panic(s) (%d structural store-integrity, %d by table): %s", auto+manual, auto, manual, why)
			} else {
				why = fmt.Sprintf("%d panic(s) not guarded by a codec/store-integrity test and not in the table", manual)
			}
			c.Check(ok, key, byFn[fn][0].Instr, why)
		}
	}

	// ---- R6 ------------------------------------------------------------------------------------
	c.Rule("R6", "side-condition of the store-integrity classification of GetQueuedInfractionParameters' error in BeginBlock: a schedule entry exists only together with queued parameters (pending changes are removed as a pair, created as a pair, and a cancelling request removes both)", 18)
	infractionPairing(c)

	// ---- R5 ------------------------------------------------------------------------------------
	c.Rule("R5", "chain-id / initial-height consistency (makes the launch fallback's SetConsumerInitializationParameters infallible): after every run-time SetConsumerChainId, a success return is reached only through a validation of the initial height against the new chain id (SetConsumerInitializationParameters, which validates, or ValidateInitialHeight on the stored height)", 2)
	sites, _ := c.Callers("pk.Keeper.SetConsumerChainId")
	for _, s := range sites {
		cl, ok := s.(ssa.CallInstruction)
		f := topFn(s.Parent())
		if !ok {
			c.Undecided(fk(f, "chain-id-write"), s, "SetConsumerChainId used as a value")
			continue
		}
		fn := s.Parent()
		id := arg(cl, 1)
		var via []ssa.Instruction
		for _, v := range Calls(fn, false, "pk.Keeper.SetConsumerInitializationParameters") {
			if sameVal(arg(v, 1), id) {
				via = append(via, v)
			}
		}
		for _, v := range Calls(fn, false, "pt.ValidateInitialHeight") {
			if sameVal(arg(v, 1), arg(cl, 2)) || sharesRoots(arg(v, 1), arg(cl, 2)) {
				via = append(via, v)
			}
		}
		// flag-correlated search: path states carry the values of boolean flag phis
		bad := pathAvoiding(fn, cl, via, func(in ssa.Instruction) bool {
			r, ok := in.(*ssa.Return)
			return ok && len(successReturnsOf(r)) > 0
		})
		c.Check(bad == "", fk(f, "chain-id-write-revalidates"), s, "every path from SetConsumerChainId to a success return validates the initial height against the new chain id"+bad)
		// and the validation's failure is an error return
		for _, v := range via {
			vc := v.(ssa.CallInstruction)
			ev := vc.Value()
			okA := AErrNil("validation ok", PIs(ev))
			for _, r := range successReturns(fn) {
				if NewReach(fn).After(v)[r] {
					rq, n := reachUnder(fn, F(okA))
					c.Check(n[0] > 0 && !rq.After(v)[r], fk(f, "validation-failure-rejects", shortName(calleeName(vc))), r, "a failed validation cannot reach a success return")
				}
			}
		}
	}
}

func callRecvOrArg(cl ssa.CallInstruction) ssa.Value {
	// SendIBCPacket(ctx, channelKeeper, channelId, port, data.GetBytes(), timeout): the packet is arg 4's receiver
	a := arg(cl, 4)
	if c, _ := callOf(a); c != nil {
		return callRecv(c)
	}
	return a
}

func isCtxType(t types.Type) bool {
	s := t.String()
	return s == "github.com/cosmos/cosmos-sdk/types.Context" || s == "context.Context"
}

// ctxDerived: v derives from the enclosing function's own context.
func ctxDerived(v ssa.Value, fn *ssa.Function, depth int) (string, bool) {
	if depth > 8 {
		return "derivation too deep", false
	}
	for _, r := range roots(v) {
		switch x := r.(type) {
		case *ssa.Parameter:
			if isCtxType(x.Type()) {
				continue
			}
			return "parameter " + x.Name() + " is not a context", false
		case *ssa.FreeVar:
			continue // captured context of the enclosing function
		case *ssa.Extract:
			if c, ok := x.Tuple.(*ssa.Call); ok && isCallTo(c, "sdk.Context.CacheContext") {
				if why, ok := ctxDerived(callRecv(c), fn, depth+1); !ok {
					return why, false
				}
				continue
			}
			return "tuple element of " + describe(x.Tuple), false
		case *ssa.Call:
			n := calleeName(x)
			switch {
			case n == "github.com/cosmos/cosmos-sdk/types.UnwrapSDKContext", n == "github.com/cosmos/cosmos-sdk/types.WrapSDKContext":
				if why, ok := ctxDerived(x.Call.Args[0], fn, depth+1); !ok {
					return why, false
				}
				continue
			case strings.HasPrefix(n, "github.com/cosmos/cosmos-sdk/types.Context.With"), n == "github.com/cosmos/cosmos-sdk/types.Context.Context":
				if why, ok := ctxDerived(x.Call.Args[0], fn, depth+1); !ok {
					return why, false
				}
				continue
			case strings.HasPrefix(n, "context.With"):
				if why, ok := ctxDerived(x.Call.Args[0], fn, depth+1); !ok {
					return why, false
				}
				continue
			}
			return "result of " + shortName(n), false
		case *ssa.UnOp:
			if _, isFV := x.X.(*ssa.FreeVar); isFV {
				continue // context variable captured by reference
			}
			// field of a request/struct holding a context (e.g. simulation, test helpers)
			return "loaded from " + describe(x.X), false
		default:
			return describe(r), false
		}
	}
	return "", true
}

// pathAvoiding searches for a path from `from` (exclusive) to an instruction accepted by `target`
// that executes none of `via`. Boolean flag phis (phis all of whose edges are constants) are
// tracked along the path so that branches on them are taken consistently. Returns "" if no such
// path exists, otherwise a short witness.
func pathAvoiding(fn *ssa.Function, from ssa.Instruction, via []ssa.Instruction, target func(ssa.Instruction) bool) string {
	cut := map[ssa.Instruction]bool{}
	for _, v := range via {
		cut[v] = true
	}
	type state struct {
		b     *ssa.BasicBlock
		prev  *ssa.BasicBlock
		flags string
	}
	flagPhis := []*ssa.Phi{}
	for _, b := range fn.Blocks {
		for _, in := range b.Instrs {
			if p, ok := in.(*ssa.Phi); ok {
				all := true
				for _, e := range p.Edges {
					if _, isC := constBool(e); !isC {
						all = false
					}
				}
				if all {
					flagPhis = append(flagPhis, p)
				}
			}
		}
	}
	enc := func(m map[*ssa.Phi]bool) string {
		s := ""
		for _, p := range flagPhis {
			if v, ok := m[p]; ok {
				if v {
					s += "T"
				} else {
					s += "F"
				}
			} else {
				s += "?"
			}
		}
		return s
	}
	type item struct {
		b     *ssa.BasicBlock
		start int
		prev  *ssa.BasicBlock
		flags map[*ssa.Phi]bool
	}
	p0 := pointOf(from)
	visited := map[state]bool{}
	work := []item{{p0.b, p0.i + 1, nil, map[*ssa.Phi]bool{}}}
	for len(work) > 0 {
		it := work[len(work)-1]
		work = work[:len(work)-1]
		flags := map[*ssa.Phi]bool{}
		for k, v := range it.flags {
			flags[k] = v
		}
		stopped := false
		for i := it.start; i < len(it.b.Instrs); i++ {
			in := it.b.Instrs[i]
			if ph, ok := in.(*ssa.Phi); ok && it.prev != nil {
				for _, fp := range flagPhis {
					if fp == ph {
						for k, pr := range it.b.Preds {
							if pr == it.prev {
								v, _ := constBool(ph.Edges[k])
								flags[ph] = v
							}
						}
					}
				}
				continue
			}
			if cut[in] {
				stopped = true
				break
			}
			if target(in) {
				return fmt.Sprintf(" [witness: reaches %s in block %d without validation]", instrLabel(in), it.b.Index)
			}
		}
		if stopped {
			continue
		}
		last := it.b.Instrs[len(it.b.Instrs)-1]
		succs := it.b.Succs
		if iff, ok := last.(*ssa.If); ok {
			l := normCond(iff.Cond)
			if ph, ok := l.V.(*ssa.Phi); ok {
				if v, known := flags[ph]; known {
					if l.Neg {
						v = !v
					}
					if v {
						succs = succs[:1]
					} else {
						succs = succs[1:]
					}
				}
			}
		}
		for _, s := range succs {
			st := state{s, it.b, enc(flags)}
			if visited[st] {
				continue
			}
			visited[st] = true
			work = append(work, item{s, 0, it.b, flags})
		}
	}
	return ""
}

// classifyLeaf gives the class of an error origin: structural rules first, then the table.
func classifyLeaf(l errLeaf) (string, bool) {
	switch l.Kind {
	case "codec":
		return "store-integrity: decode/encode of module-written bytes (" + l.What + ")", true
	case "external":
		if why, ok := externalOK[l.What]; ok {
			return "external infrastructure: " + why, true
		}
	}
	if why, ok := censusTable[l.Key()]; ok {
		return why, true
	}
	return "UNCLASSIFIED error origin " + l.Key() + " can propagate to block processing", false
}

// external calls whose errors are infrastructure failures of other modules (not user-triggerable
// through this module's messages)
var externalOK = map[string]string{
	"types.StakingKeeper.MaxValidators":              "staking parameter read",
	"types.StakingKeeper.GetBondedValidatorsByPower": "staking's own bonded-validator index",
	"types.StakingKeeper.GetLastValidatorPower":      "staking's last-power record of a validator taken from staking's bonded list",
	"types.StakingKeeper.GetValidatorByConsAddr":     "lookup by the consensus address of a validator taken from staking's bonded list",
	"types.ValAddressFromBech32":                     "operator address of a staking validator (valid by staking's own validation)",
	"types.Validator.GetConsAddr":                    "consensus key of a staking validator (decodes by staking's own validation)",
	"types.Validator.CmtConsPublicKey":               "consensus key of a staking validator",
	"types.ParseTimeBytes":                           "time bytes written by sdk.FormatTimeBytes in the queue's key constructor (store integrity)",
}

// functions whose non-structural panics are accepted, with the reason
var panicTable = map[string]string{
	"keeper.Keeper.SetSlashMeter":               "protocol-invariant: the meter is bounded above by the allowance (<= total power <= MaxTotalVotingPower, C09.R2) and below by minus one validator's power (C09.R1)",
	"types.mustGetKeyPrefix":                    "static: every key-name constant used by a constructor is registered in getKeyPrefixes (checked by C13.R1)",
	"keeper.Keeper.TrackHistoricalInfo":         "store-integrity: cross-chain validator records are written by this module from keys that decoded when they were applied",
	"keeper.Keeper.ApplyCCValidatorChanges":     "validated-at-write: validator updates come from VSC packets validated on receipt (ValidatorSetChangePacketData.Validate) or from genesis; remaining panics are failures of the chain's own slashing hooks",
	"keeper.Keeper.ChangeoverToConsumer":        "configuration invariant of a formerly standalone chain (standalone staking keeper present while PreCCV)",
	"keeper.Keeper.GetLastStandaloneValidators": "configuration invariant of a formerly standalone chain",
	"keeper.Keeper.DistributeRewardsInternally": "fraction parameter validated when parameters are written; transfers are between the module's own accounts (bank failure = infrastructure)",
}
