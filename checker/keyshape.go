package main

// A1: key-shape abstract interpretation. A store key (or iterator prefix) expression is evaluated
// to a sequence of segments over symbolic sources.

import (
	"fmt"
	"go/token"
	"go/types"
	"strings"

	"golang.org/x/tools/go/ssa"
)

type SegKind int

const (
	SegConst SegKind = iota // one prefix byte, identified by its key name
	SegRaw                  // raw bytes of a string / byte-slice source (variable length, undelimited)
	SegLen8                 // 8-byte big-endian length of a source
	SegU64                  // 8-byte big-endian integer
	SegTime                 // sdk.FormatTimeBytes(source)
	SegFixed                // fixed-size buffer (make([]byte, n))
	SegUnknown
)

type Seg struct {
	Kind SegKind
	Src  string // key name for SegConst; source description otherwise
}

func (s Seg) String() string {
	k := [...]string{"Const", "Raw", "Len8", "U64", "Time", "Fixed", "?"}[s.Kind]
	return k + "(" + s.Src + ")"
}

func shapeString(ss []Seg) string {
	var p []string
	for _, s := range ss {
		p = append(p, s.String())
	}
	return strings.Join(p, "·")
}

// term: symbolic scalar (the thing a Raw/Len8/Time segment is derived from)
type keyEnv struct {
	params map[*ssa.Parameter]interface{} // actual: string (source description) | []Seg | byteConst
	depth  int
}

type byteConst struct{ name string }

type keyEval struct {
	p *Prog
}

// srcOf describes a scalar value as a source name: parameters by name, everything else by a
// structural key; callers compare sources by string equality.
func (ke *keyEval) srcOf(v ssa.Value, env *keyEnv) string {
	v0 := v
	v = strip(v)
	// *consumerId (optional id passed by pointer)
	if u, ok := v.(*ssa.UnOp); ok && u.Op == token.MUL {
		if p, ok := u.X.(*ssa.Parameter); ok {
			if env != nil {
				if a, ok := env.params[p]; ok {
					if s, ok := a.(string); ok {
						return s
					}
				}
			}
			return "param:" + p.Name()
		}
	}
	if p, ok := v.(*ssa.Parameter); ok {
		if env != nil {
			if a, ok := env.params[p]; ok {
				if s, ok := a.(string); ok {
					return s
				}
			}
		}
		return "param:" + p.Name()
	}
	// method calls that only re-type an address
	if c, ok := v.(*ssa.Call); ok {
		n := calleeName(c)
		switch {
		case strings.HasSuffix(n, ".ToSdkConsAddr"), strings.HasSuffix(n, "ConsAddress.Bytes"), strings.HasSuffix(n, ".String") && false:
			if r := callRecv(c); r != nil {
				return ke.srcOf(r, env)
			}
		}
	}
	_ = v0
	return vkey(v)
}

// evalBytes evaluates a []byte-typed value to segments.
func (ke *keyEval) evalBytes(v ssa.Value, env *keyEnv) []Seg {
	if env == nil {
		env = &keyEnv{params: map[*ssa.Parameter]interface{}{}}
	}
	if env.depth > 12 {
		return []Seg{{SegUnknown, "depth"}}
	}
	switch x := v.(type) {
	case *ssa.ChangeType:
		return ke.evalBytes(x.X, env)
	case *ssa.MakeInterface:
		return ke.evalBytes(x.X, env)
	case *ssa.Parameter:
		if a, ok := env.params[x]; ok {
			switch t := a.(type) {
			case []Seg:
				return t
			case string:
				return []Seg{{SegRaw, t}}
			}
		}
		return []Seg{{SegRaw, "param:" + x.Name()}}
	case *ssa.Convert:
		// []byte(string)
		return []Seg{{SegRaw, ke.srcOf(x.X, env)}}
	case *ssa.Slice:
		// []byte{b} literal: slice of a fresh array with stores
		if al, ok := x.X.(*ssa.Alloc); ok {
			return ke.evalArrayLit(al, env)
		}
		if x.Low == nil && x.High == nil {
			return ke.evalBytes(x.X, env)
		}
		return []Seg{{SegUnknown, "slice-expr"}}
	case *ssa.MakeSlice:
		if n, ok := constInt(x.Len); ok {
			if n == 8 {
				// an 8-byte buffer filled by binary.<order>.PutUint64(buf, v)
				for _, r := range *x.Referrers() {
					cl, isCall := r.(*ssa.Call)
					if !isCall || !cl.Call.IsInvoke() && cl.Call.StaticCallee() == nil {
						continue
					}
					name := calleeName(cl)
					if strings.HasSuffix(name, "bigEndian.PutUint64") {
						as := callArgs(cl)
						if len(as) == 2 && as[0] == ssa.Value(x) {
							return []Seg{{SegU64, ke.srcOf(as[1], env)}}
						}
					}
					if strings.HasSuffix(name, "littleEndian.PutUint64") {
						return []Seg{{SegUnknown, "little-endian integer (iteration order is not numeric order)"}}
					}
				}
			}
			return []Seg{{SegFixed, fmt.Sprint(n)}}
		}
		return []Seg{{SegUnknown, "make"}}
	case *ssa.Phi:
		// all edges must agree
		var first []Seg
		for i, e := range x.Edges {
			s := ke.evalBytes(e, env)
			if i == 0 {
				first = s
			} else if shapeString(s) != shapeString(first) {
				return []Seg{{SegUnknown, "phi{" + shapeString(first) + " | " + shapeString(s) + "}"}}
			}
		}
		return first
	case *ssa.UnOp:
		if x.Op == token.MUL {
			if al, ok := x.X.(*ssa.Alloc); ok {
				if s := singleStore(al); s != nil {
					return ke.evalBytes(s, env)
				}
			}
		}
	case *ssa.Call:
		n := calleeName(x)
		args := callArgs(x)
		switch n {
		case "builtin.append":
			out := append([]Seg{}, ke.evalBytes(x.Call.Args[0], env)...)
			if len(x.Call.Args) > 1 {
				out = append(out, ke.evalBytes(x.Call.Args[1], env)...)
			}
			return out
		case q("ccv.AppendMany"):
			return ke.evalVariadic(args[0], env)
		case "github.com/cosmos/cosmos-sdk/types.Uint64ToBigEndian":
			a := strip(args[0])
			if l, ok := a.(*ssa.Call); ok && isCallTo(l, "builtin.len") {
				return []Seg{{SegLen8, ke.srcOf(l.Call.Args[0], env)}}
			}
			return []Seg{{SegU64, ke.srcOf(args[0], env)}}
		case "github.com/cosmos/cosmos-sdk/types.FormatTimeBytes":
			return []Seg{{SegTime, ke.srcOf(args[0], env)}}
		}
		// re-typing methods
		if strings.HasSuffix(n, ".ToSdkConsAddr") || strings.HasSuffix(n, "ConsAddress.Bytes") {
			if r := callRecv(x); r != nil {
				return []Seg{{SegRaw, ke.srcOf(r, env)}}
			}
		}
		// another constructor of a types package: inline
		if callee := x.Call.StaticCallee(); callee != nil && callee.Blocks != nil && isKeysPkg(fnPkgPath(callee)) && returnsBytes(callee) {
			return ke.evalFunc(callee, x.Call.Args, env)
		}
		return []Seg{{SegUnknown, "call " + shortName(n)}}
	}
	return []Seg{{SegUnknown, fmt.Sprintf("%T", v)}}
}

func isKeysPkg(p string) bool {
	return p == q("pt") || p == q("ct") || p == q("ccv") || p == q("pk") || p == q("ck")
}

// evalFunc evaluates the (single) returned byte slice of a constructor with actual arguments.
func (ke *keyEval) evalFunc(fn *ssa.Function, actuals []ssa.Value, outer *keyEnv) []Seg {
	env := &keyEnv{params: map[*ssa.Parameter]interface{}{}, depth: 1}
	if outer != nil {
		env.depth = outer.depth + 1
	}
	for i, p := range fn.Params {
		if actuals == nil || i >= len(actuals) {
			continue
		}
		a := actuals[i]
		switch t := p.Type().Underlying().(type) {
		case *types.Basic:
			if t.Kind() == types.Uint8 {
				env.params[p] = ke.evalByte(a, outer)
			} else {
				env.params[p] = ke.srcOf(a, outer)
			}
		case *types.Slice:
			env.params[p] = ke.evalBytes(a, outer)
		default:
			env.params[p] = ke.srcOf(a, outer)
		}
	}
	rets := Returns(fn)
	if len(rets) != 1 || len(rets[0].Results) < 1 {
		return []Seg{{SegUnknown, "returns of " + fn.Name()}}
	}
	return ke.evalBytes(rets[0].Results[0], env)
}

// evalByte evaluates a byte-typed value to a prefix constant.
func (ke *keyEval) evalByte(v ssa.Value, env *keyEnv) byteConst {
	v = strip(v)
	if p, ok := v.(*ssa.Parameter); ok && env != nil {
		if a, ok := env.params[p]; ok {
			if b, ok := a.(byteConst); ok {
				return b
			}
		}
		return byteConst{"param:" + p.Name()}
	}
	if c, ok := v.(*ssa.Call); ok {
		if isCallTo(c, "pt.mustGetKeyPrefix", "ct.mustGetKeyPrefix") {
			if s, ok := constString(c.Call.Args[0]); ok {
				return byteConst{s}
			}
		}
		if callee := c.Call.StaticCallee(); callee != nil && callee.Blocks != nil && isKeysPkg(fnPkgPath(callee)) {
			rets := Returns(callee)
			if len(rets) == 1 && len(rets[0].Results) == 1 {
				return ke.evalByte(rets[0].Results[0], &keyEnv{params: map[*ssa.Parameter]interface{}{}})
			}
		}
	}
	if k, ok := constInt(v); ok {
		return byteConst{fmt.Sprintf("0x%02x", k)}
	}
	return byteConst{"?" + vkey(v)}
}

// evalArrayLit: []byte{b0, b1, …} or [][]byte{…} backing array.
func (ke *keyEval) evalArrayLit(al *ssa.Alloc, env *keyEnv) []Seg {
	at, ok := al.Type().Underlying().(*types.Pointer)
	if !ok {
		return []Seg{{SegUnknown, "alloc"}}
	}
	arr, ok := at.Elem().Underlying().(*types.Array)
	if !ok {
		return []Seg{{SegUnknown, "alloc"}}
	}
	elems := make([]ssa.Value, arr.Len())
	for _, r := range *al.Referrers() {
		if ia, ok := r.(*ssa.IndexAddr); ok {
			idx, okI := constInt(ia.Index)
			if !okI {
				return []Seg{{SegUnknown, "dynamic index"}}
			}
			for _, rr := range *ia.Referrers() {
				if st, ok := rr.(*ssa.Store); ok && st.Addr == ia {
					elems[idx] = st.Val
				}
			}
		}
	}
	var out []Seg
	allUnset := true
	for _, e := range elems {
		if e != nil {
			allUnset = false
		}
	}
	if eb, ok := arr.Elem().Underlying().(*types.Basic); ok && eb.Kind() == types.Uint8 && allUnset {
		// make([]byte, n) with constant n: a fixed-size buffer filled in place (PutUint64 etc.)
		if arr.Len() == 8 {
			for _, r := range *al.Referrers() {
				sl, isSl := r.(*ssa.Slice)
				if !isSl {
					continue
				}
				for _, rr := range *sl.Referrers() {
					cl, isCall := rr.(*ssa.Call)
					if !isCall {
						continue
					}
					name := calleeName(cl)
					as := callArgs(cl)
					if strings.HasSuffix(name, "bigEndian.PutUint64") && len(as) == 2 && as[0] == ssa.Value(sl) {
						return []Seg{{SegU64, ke.srcOf(as[1], env)}}
					}
					if strings.HasSuffix(name, "littleEndian.PutUint64") {
						return []Seg{{SegUnknown, "little-endian integer (iteration order is not numeric order)"}}
					}
				}
			}
		}
		return []Seg{{SegFixed, fmt.Sprint(arr.Len())}}
	}
	for _, e := range elems {
		if e == nil {
			out = append(out, Seg{SegUnknown, "unset element"})
			continue
		}
		if b, ok := e.Type().Underlying().(*types.Basic); ok && b.Kind() == types.Uint8 {
			out = append(out, Seg{SegConst, ke.evalByte(e, env).name})
		} else {
			out = append(out, ke.evalBytes(e, env)...)
		}
	}
	return out
}

func (ke *keyEval) evalVariadic(v ssa.Value, env *keyEnv) []Seg {
	if sl, ok := v.(*ssa.Slice); ok {
		if al, ok := sl.X.(*ssa.Alloc); ok {
			return ke.evalArrayLit(al, env)
		}
	}
	return []Seg{{SegUnknown, "variadic"}}
}

// keyNamesOf: the prefix names (Const segments) a shape starts with.
func leadingConst(ss []Seg) string {
	if len(ss) > 0 && ss[0].Kind == SegConst {
		return ss[0].Src
	}
	return ""
}

func returnsBytes(f *ssa.Function) bool {
	res := f.Signature.Results()
	if res.Len() != 1 {
		return false
	}
	sl, ok := res.At(0).Type().Underlying().(*types.Slice)
	if !ok {
		return false
	}
	b, ok := sl.Elem().Underlying().(*types.Basic)
	return ok && b.Kind() == types.Uint8
}

// KeyShapeIs: the key constructor evaluates to exactly the given shape. Used for key spaces whose
// iteration order carries meaning (FIFO indexes, time queues, height tables): the ordered segment
// must be a big-endian integer or a sortable time encoding directly after the fixed part.
func (c *Ctx) KeyShapeIs(spec, want, why string) {
	f := c.Fn(spec)
	if f == nil {
		return
	}
	ke := &keyEval{p: c.P}
	got := shapeString(ke.evalFunc(f, nil, nil))
	c.Check(got == want, fk(f, "ordered-key-shape"), f, fmt.Sprintf("%s: key = %s; found %s", why, want, got))
}
