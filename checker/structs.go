package main

// Who-may-construct: where values of a named struct type are built (non-empty composite literal)
// and where its fields are assigned, resolved through go/types on the syntax tree. A record type
// whose fields carry history (e.g. ConsensusValidator.JoinHeight) must only be built by its
// constructors; everything else copies whole values or assigns the listed mutable fields.

import (
	"fmt"
	"go/ast"
	"go/types"
	"sort"
	"strings"

	"golang.org/x/tools/go/ssa"
)

type structSite struct {
	Fn       string // enclosing function (pkgpath.Recv.Name or pkgpath.Name)
	Pos      string
	Kind     string // "literal" | "assign:<field>"
	Field    string
	Complete bool // literal sets every field of the struct
}

func namedIs(t types.Type, full string) bool {
	if p, ok := t.(*types.Pointer); ok {
		t = p.Elem()
	}
	n, ok := t.(*types.Named)
	if !ok || n.Obj().Pkg() == nil {
		return false
	}
	return n.Obj().Pkg().Path()+"."+n.Obj().Name() == full
}

// structSites lists constructions and field assignments of the named struct type in non-test,
// non-generated module files.
func (p *Prog) structSites(full string) []structSite {
	var out []structSite
	for _, pkg := range p.AllPkgs {
		for _, file := range pkg.Files {
			fname := p.Fset.Position(file.Pos()).Filename
			if strings.HasSuffix(fname, "_test.go") || strings.HasSuffix(fname, ".pb.go") || strings.HasSuffix(fname, ".pb.gw.go") {
				continue
			}
			for _, d := range file.Decls {
				fd, ok := d.(*ast.FuncDecl)
				if !ok || fd.Body == nil {
					continue
				}
				fn := pkg.PkgPath + "."
				if obj, ok := pkg.Info.Defs[fd.Name].(*types.Func); ok {
					fn = funcName(obj)
				} else {
					fn += fd.Name.Name
				}
				ast.Inspect(fd.Body, func(n ast.Node) bool {
					switch x := n.(type) {
					case *ast.CompositeLit:
						if len(x.Elts) > 0 {
							if t := pkg.Info.TypeOf(x); t != nil && namedIs(t, full) {
								st, _ := t.Underlying().(*types.Struct)
								out = append(out, structSite{fn, p.Pos(x.Pos()), "literal", "", st != nil && len(x.Elts) == st.NumFields()})
							}
						}
					case *ast.AssignStmt:
						for _, l := range x.Lhs {
							if se, ok := l.(*ast.SelectorExpr); ok {
								if t := pkg.Info.TypeOf(se.X); t != nil && namedIs(t, full) {
									out = append(out, structSite{fn, p.Pos(se.Pos()), "assign:" + se.Sel.Name, se.Sel.Name, false})
								}
							}
						}
					case *ast.IncDecStmt:
						if se, ok := x.X.(*ast.SelectorExpr); ok {
							if t := pkg.Info.TypeOf(se.X); t != nil && namedIs(t, full) {
								out = append(out, structSite{fn, p.Pos(se.Pos()), "assign:" + se.Sel.Name, se.Sel.Name, false})
							}
						}
					}
					return true
				})
			}
		}
	}
	sort.Slice(out, func(i, j int) bool { return out[i].Pos < out[j].Pos })
	return out
}

// OnlyBuiltBy: non-empty literals of the type occur only in `ctors`; fields other than
// `mutable` are assigned only in `ctors`. minSites guards against a vacuous pass.
func (c *Ctx) OnlyBuiltBy(typ string, ctors []string, mutable []string, minSites int) {
	full := q(typ)
	allowed := map[string]bool{}
	for _, k := range ctors {
		allowed[q(k)] = true
	}
	mut := map[string]bool{}
	for _, m := range mutable {
		mut[m] = true
	}
	sites := c.P.structSites(full)
	idx := map[string]int{}
	for _, s := range sites {
		k := shortName(s.Fn) + "/" + s.Kind
		idx[k]++
		key := fmt.Sprintf("%s/builds/%s/%d", shortName(full), k, idx[k])
		switch {
		case s.Kind == "literal":
			c.Check(allowed[s.Fn] || s.Complete, key, s.Pos, fmt.Sprintf("a %s record is built field by field only by its constructors %v, or with every field given (any other function copies whole records, so no field is lost)", shortName(full), shortList(ctors)))
		case mut[s.Field]:
			c.Check(true, key, s.Pos, "assigns the mutable field "+s.Field)
		default:
			c.Check(allowed[s.Fn], key, s.Pos, fmt.Sprintf("field %s of %s is assigned only by its constructors", s.Field, shortName(full)))
		}
	}
	c.Check(len(sites) >= minSites, shortName(full)+"/builds/census", nil, fmt.Sprintf("%d construction/assignment sites of %s analysed (at least %d confirmed by hand)", len(sites), shortName(full), minSites))
}

// ComparesAllFields: an equality helper eq(a, b T) reads every field of T from both parameters
// (a comparison that silently skips a field makes two different values "equal").
func (c *Ctx) ComparesAllFields(f *ssa.Function, key string) {
	var ps []*ssa.Parameter
	for _, p := range f.Params {
		if !isCtxType(p.Type()) {
			ps = append(ps, p)
		}
	}
	if len(ps) != 2 || !types.Identical(ps[0].Type(), ps[1].Type()) {
		c.Undecided(key, f, "not a two-argument equality helper over one type")
		return
	}
	t := ps[0].Type()
	if pt, ok := t.Underlying().(*types.Pointer); ok {
		t = pt.Elem()
	}
	st, ok := t.Underlying().(*types.Struct)
	if !ok {
		c.Undecided(key, f, "parameters are not structs")
		return
	}
	read := [2]map[int]bool{{}, {}}
	rootParam := func(v ssa.Value) int {
		for d := 0; d < 4; d++ {
			v = strip(v)
			for i, p := range ps {
				if v == ssa.Value(p) {
					return i
				}
			}
			switch x := v.(type) {
			case *ssa.UnOp:
				v = x.X
				continue
			case *ssa.Alloc:
				if s := singleStore(x); s != nil {
					v = s
					continue
				}
			}
			break
		}
		return -1
	}
	for _, in := range allInstrs(f) {
		switch x := in.(type) {
		case *ssa.FieldAddr:
			if i := rootParam(x.X); i >= 0 {
				read[i][x.Field] = true
			}
		case *ssa.Field:
			if i := rootParam(x.X); i >= 0 {
				read[i][x.Field] = true
			}
		}
	}
	var missing []string
	n := 0
	for i := 0; i < st.NumFields(); i++ {
		name := st.Field(i).Name()
		if strings.HasPrefix(name, "XXX_") || !st.Field(i).Exported() {
			continue
		}
		n++
		if !read[0][i] || !read[1][i] {
			missing = append(missing, name)
		}
	}
	sort.Strings(missing)
	c.Check(len(missing) == 0, key, f, fmt.Sprintf("the equality helper reads all %d fields of %s from both arguments; not compared: %v", n, shortName(types.TypeString(t, nil)), missing))
}
