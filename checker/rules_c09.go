package main

import (
	"go/token"

	"golang.org/x/tools/go/ssa"
)

func init() {
	register(&propDef{
		ID: "C09",
		Explanation: "Decides the structure the throttling bound rests on: the slash meter has exactly four run-time writers (initialise = allowance, replenish = min(meter+allowance, allowance), clamp to the allowance it was compared with, deduct = meter - power of the resolved validator); " +
			"a packet is bounced before anything is deducted and the deduction precedes handling; replenishment happens only when the block time reached the candidate and is followed by a new candidate; every BeginBlock ends with the clamp test; the allowance is never 0; " +
			"on the consumer every send is preceded by PacketSendingPermitted, a sent slash packet stops the loop and is not deleted, a failed send deletes nothing; the acknowledgement state machine (V1/handled => clear record + drop head; bounced => mark for retry only) and the PacketSendingPermitted table.",
		NotDecided: []string{"the numeric bound on jailed power per time window (arithmetic over block times and powers)", "math.Int arithmetic itself"},
		Run:        runC09,
	})
}

func runC09(c *Ctx) {
	// ---- R1 -------------------------------------------------------------------------------------
	c.Rule("R1", "OnRecvSlashPacket: bounce before deduct, deduct before handle; the only meter write is GetSlashMeter().Sub(GetEffectiveValPower(resolved validator))", 4)
	if a := slashRecv(c); a != nil && a.handle != nil && a.setMeter != nil {
		f := a.fn
		meter := PCall("pk.Keeper.GetSlashMeter", -1, nil)
		want := PCall("math.Int.Sub", -1, meter, PCall("pk.Keeper.GetEffectiveValPower", -1, nil, nil, a.res))
		c.Check(want(arg(a.setMeter, 1)), fk(f, "deduction"), a.setMeter, "new meter = GetSlashMeter(ctx).Sub(GetEffectiveValPower(ctx, resolved validator)); found "+describe(arg(a.setMeter, 1)))
		c.Check(mustPassBefore(a.handle, a.setMeter), fk(f, "deduct-before-handle"), a.handle, "every path to HandleSlashPacket passes the meter write")
		c.GuardedBy(a.setMeter, fk(f, "bounce-before-deduct"), a.meterNeg.Not())
		// bounce ONLY when negative: an admitted packet with a non-negative meter is always deducted
		good := []Lit{T(a.dataValid), T(a.packetValid), F(a.isDS), T(a.launched), T(a.inSet), F(a.meterNeg)}
		for _, r := range reachableReturns(f, good...) {
			c.MustPassWhen(r, []ssa.Instruction{a.setMeter}, fk(f, "bounce-only-when-negative"), good...)
		}
		// the tested meter and the deducted meter are the same read
		var tested ssa.Value
		for _, g := range ifsTesting(f, a.meterNeg.Fn) {
			if cl, _ := callOf(normCond(g.If.Cond).V); cl != nil {
				tested = callRecv(cl)
			}
		}
		sub, _ := callOf(arg(a.setMeter, 1))
		c.Check(sub != nil && tested != nil && sameVal(callRecv(sub), tested), fk(f, "same-meter-read"), a.setMeter, "the meter value tested for negativity is the one deducted from")
	}

	// ---- R2 -------------------------------------------------------------------------------------
	c.Rule("R2", "meter writers: initialise / replenish / clamp / deduct only; replenish only when BlockTime >= candidate and followed by a new candidate; clamp writes the allowance it compared with and its test lies on every path of CheckForSlashMeterReplenishment; replenish writes min(meter+allowance, allowance); allowance never 0", 14)
	c.OnlyCalledFrom("pk.Keeper.SetSlashMeter", "pk.Keeper.InitializeSlashMeter", "pk.Keeper.CheckForSlashMeterReplenishment", "pk.Keeper.ReplenishSlashMeter", "pk.Keeper.OnRecvSlashPacket")
	c.OnlyCalledFrom("pk.Keeper.ReplenishSlashMeter", "pk.Keeper.CheckForSlashMeterReplenishment")
	allowance := PCall("pk.Keeper.GetSlashMeterAllowance", -1, nil)
	if f := c.Fn("pk.Keeper.InitializeSlashMeter"); f != nil {
		if s := c.one(f, false, "pk.Keeper.SetSlashMeter"); s != nil {
			c.Check(allowance(arg(s, 1)), fk(f, "full-meter"), s, "initial meter = allowance")
		}
	}
	if f := c.Fn("pk.Keeper.CheckForSlashMeterReplenishment"); f != nil {
		due := ABool("BlockTime.Before(candidate)", PCall("time.Time.Before", -1, PCall("time.Time.UTC", -1, PCall("sdk.Context.BlockTime", -1, nil)), PCall("pk.Keeper.GetSlashMeterReplenishTimeCandidate", -1, nil))).Not()
		rep := c.one(f, false, "pk.Keeper.ReplenishSlashMeter")
		set := c.one(f, false, "pk.Keeper.SetSlashMeter")
		cands := Calls(f, false, "pk.Keeper.SetSlashMeterReplenishTimeCandidate")
		if rep != nil && set != nil {
			c.GuardedBy(rep, fk(f, "replenish-only-when-due"), due)
			rq := NewReach(f)
			for _, x := range cands {
				rq.CutInstrs[x] = true
			}
			after := rq.After(rep)
			ok := true
			for _, r := range Returns(f) {
				if after[r] {
					ok = false
				}
			}
			c.Check(ok && len(cands) > 0, fk(f, "new-candidate-after-replenish"), rep, "every path from ReplenishSlashMeter to a return passes SetSlashMeterReplenishTimeCandidate")
			full := ABool("GetSlashMeter().GTE(allowance)", PCall("math.Int.GTE", -1, PCall("pk.Keeper.GetSlashMeter", -1, nil), allowance))
			c.GuardedBy(set, fk(f, "clamp-guard"), full)
			var cmpAllowance ssa.Value
			gs := ifsTesting(f, full.Fn)
			for _, g := range gs {
				if cl, _ := callOf(normCond(g.If.Cond).V); cl != nil {
					cmpAllowance = arg(cl, 0)
				}
			}
			c.Check(cmpAllowance != nil && sameVal(arg(set, 1), cmpAllowance), fk(f, "clamp-value"), set, "the meter is clamped to the very allowance it was compared with; found "+describe(arg(set, 1)))
			for _, r := range Returns(f) {
				viaOK := len(gs) == 1 && mustPassBefore(r, gs[0].If)
				c.Check(viaOK, fk(f, "clamp-test-always"), r, "every return passes the meter >= allowance test (so the meter never ends a BeginBlock above the allowance)")
			}
			if len(gs) == 1 {
				// the allowance is read after a possible replenishment, and the meter is re-read after it
				cl, _ := callOf(cmpAllowance)
				c.Check(cl != nil && !NewReach(f).After(cl)[rep], fk(f, "allowance-read-after-replenish"), rep, "the clamp uses the allowance read after the replenishment")
			}
		}
	}
	if f := c.Fn("pk.Keeper.ReplenishSlashMeter"); f != nil {
		if s := c.one(f, false, "pk.Keeper.SetSlashMeter"); s != nil {
			sum := PCall("math.Int.Add", -1, PCall("pk.Keeper.GetSlashMeter", -1, nil), allowance)
			over := ABool("(meter+allowance).GT(allowance)", POr(PCall("math.Int.GT", -1, sum, allowance), PCall("math.Int.LT", -1, allowance, sum)))
			vT := valuesUnder(arg(s, 1), f, T(over))
			vF := valuesUnder(arg(s, 1), f, F(over))
			c.Check(len(ifsTesting(f, over.Fn)) == 1, fk(f, "cap-test"), s, "tests (meter+allowance) > allowance")
			c.Check(len(vT) == 1 && allowance(vT[0]), fk(f, "cap"), s, "when meter+allowance exceeds the allowance the allowance is stored; found "+describeAll(vT))
			c.Check(len(vF) == 1 && sum(vF[0]), fk(f, "sum"), s, "otherwise meter+allowance is stored; found "+describeAll(vF))
		}
	}
	if f := c.Fn("pk.Keeper.GetSlashMeterAllowance"); f != nil {
		n := 0
		for _, r := range Returns(f) {
			v := r.Results[0]
			if PCall("math.NewInt", -1, nil, PConstInt(1))(v) {
				n++
				continue
			}
			zero := ABool("result.IsZero()", PCall("math.Int.IsZero", -1, PIs(v)))
			c.UnreachableWhen(r, fk(f, "never-zero"), T(zero))
		}
		c.Check(n == 1, fk(f, "fallback-one"), f, "a zero allowance is replaced by 1")
	}

	// ---- R3 -------------------------------------------------------------------------------------
	c.Rule("R6", "accessor agreement for the throttle state (provider slash meter and replenish candidate; consumer slash record, pending packet queue and its index)", 10)
	checkAccessorAgreement(c, "pk", "SlashMeterKey", "SlashMeterReplenishTimeCandidateKey")
	checkAccessorAgreement(c, "ck", "SlashRecordKey", "PendingDataPacketsV1Key", "PendingPacketsIndexKey")
	checkSetterValues(c, "pk", []string{"SlashMeter"})
	checkSetterValues(c, "ck", []string{"SlashRecord"})
	checkIterDelete(c, 2, "ck")
	checkParamGetters(c, "ck", "GetRetryDelayPeriod")
	checkCollectors(c, "ck", "GetAllPendingPacketsWithIdx")
	c.KeyShapeIs("ct.PendingDataPacketsV1Key", "Const(PendingDataPacketsV1Key)·U64(param:idx)", "pending packets are read back in index order (FIFO)")
	checkParamGetters(c, "pk", "GetSlashMeterReplenishPeriod", "GetSlashMeterReplenishFraction")

	c.Rule("R3", "provider BeginBlock runs BeginBlockCIS on every success path; BeginBlockCIS runs CheckForSlashMeterReplenishment", 2)
	if f := c.Fn("provider.AppModule.BeginBlock"); f != nil {
		if cis := c.one(f, false, "pk.Keeper.BeginBlockCIS"); cis != nil {
			for _, r := range successReturns(f) {
				c.Check(mustPassBefore(r, cis), fk(f, "always-CIS"), r, "every success return of BeginBlock passes BeginBlockCIS")
			}
		}
	}
	if f := c.Fn("pk.Keeper.BeginBlockCIS"); f != nil {
		if ch := c.one(f, false, "pk.Keeper.CheckForSlashMeterReplenishment"); ch != nil {
			for _, r := range Returns(f) {
				c.Check(mustPassBefore(r, ch), fk(f, "always-check"), r, "always checks the meter")
			}
		}
	}

	// ---- R4 -------------------------------------------------------------------------------------
	c.Rule("R4", "consumer SendPackets: every send is preceded (same iteration) by PacketSendingPermitted; a sent slash packet updates the slash record, ends the loop and is not scheduled for deletion; a failed send schedules nothing; only scheduled indexes are deleted", 8)
	if f := c.Fn("ck.Keeper.SendPackets"); f != nil {
		send := c.one(f, false, "ccv.SendIBCPacket")
		if send != nil {
			permitted := ABool("PacketSendingPermitted()", PCall("ck.Keeper.PacketSendingPermitted", -1, nil))
			port, _ := c.StringConst("ccv.ConsumerPortID")
			gotPort, isC := constString(arg(send, 3))
			c.Check(isC && gotPort == port && PCall("ck.Keeper.GetProviderChannel", 0, nil)(arg(send, 2)) && PCall("ck.Keeper.GetCCVTimeoutPeriod", -1, nil)(arg(send, 5)), fk(f, "channel-port-timeout"), send,
				"sent on the recorded provider channel from the consumer port with the CCV timeout period; found "+describe(arg(send, 2))+", "+describe(arg(send, 3))+", "+describe(arg(send, 5)))
			// per-iteration guard: cut the hold edges; send must be unreachable from the loop head too
			c.GuardedBy(send, fk(f, "permitted-before-send"), permitted)
			gs := ifsTesting(f, permitted.Fn)
			okIter := len(gs) == 1
			if okIter {
				// from just after one send, the next send is reachable only through the test again
				rq := NewReach(f)
				rq.CutInstrs[gs[0].If] = true
				okIter = !rq.After(send)[send.(ssa.Instruction)]
			}
			c.Check(okIter, fk(f, "permitted-every-iteration"), send, "between two sends PacketSendingPermitted is evaluated again")
			slash, _ := c.ConstVal("ccv.SlashPacket")
			elem := PElemOf(PCall("ck.Keeper.GetAllPendingPacketsWithIdx", -1, nil))
			isSlash := AEq("p.Type == SlashPacket", PField(elem, "ConsumerPacketData", "Type"), PConstInt(slash))
			sendOK := AErrNil("SendIBCPacket ok", PIs(send.Value()))
			upd := c.one(f, false, "ck.Keeper.UpdateSlashRecordOnSend")
			var appends []ssa.CallInstruction
			for _, a := range Calls(f, false, "builtin.append") {
				appends = append(appends, a)
			}
			c.Check(len(appends) == 1, fk(f, "deletion-list"), f, "one append to the deletion list")
			for _, a := range appends {
				c.GuardedBy(a, fk(f, "schedule-only-sent"), sendOK)
				c.UnreachableAfterHold(a, fk(f, "slash-not-scheduled"), isSlash)
				as := callArgs(a)
				c.Check(len(as) == 2 && PField(elem, "Idx")(sliceLitElem(as[1])), fk(f, "schedules-own-index"), a, "the scheduled index is p.Idx of the packet just sent")
			}
			if upd != nil {
				c.GuardedBy(upd, fk(f, "record-on-slash-send"), sendOK, isSlash)
				c.Check(!NewReach(f).After(upd)[send.(ssa.Instruction)], fk(f, "slash-blocks-queue"), upd, "after a slash packet was sent no further packet is sent in this block")
				for _, r := range Returns(f) {
					// a sent slash packet always updates the record
					rq, _ := reachUnder(f, T(sendOK), T(isSlash))
					rq.CutInstrs[upd] = true
					c.Check(!rq.After(send)[r], fk(f, "slash-send-recorded"), r, "after a successful slash send every path to the return passes UpdateSlashRecordOnSend")
				}
			}
			// a failed send leaves the loop: no further send
			rq, _ := reachUnder(f, F(sendOK))
			c.Check(!rq.After(send)[send.(ssa.Instruction)] || len(ifsTesting(f, sendOK.Fn)) == 0 && false, fk(f, "error-stops-loop"), send, "after a failed send no further packet is sent")
			if d := c.one(f, false, "ck.Keeper.DeletePendingDataPackets"); d != nil {
				okRoots := true
				for _, r := range roots(arg(d, 1)) {
					if cl, _ := callOf(r); cl != nil && isCallTo(cl, "builtin.append") {
						continue
					}
					if _, isSlice := r.(*ssa.Slice); isSlice {
						continue // the initial empty literal
					}
					if _, isMk := r.(*ssa.MakeSlice); isMk {
						continue
					}
					okRoots = false
				}
				c.Check(okRoots, fk(f, "deletes-scheduled-only"), d, "DeletePendingDataPackets receives the scheduled index list")
			}
		}
	}

	// ---- R5 -------------------------------------------------------------------------------------
	c.Rule("R5", "consumer acknowledgement state machine: V1/handled => ClearSlashRecord + DeleteHeadOfPendingPackets; bounced => UpdateSlashRecordOnBounce only; VSCMatured acks touch nothing; PacketSendingPermitted: no record => true, waiting => false, else now > sendTime + retryDelay", 14)
	if f := c.Fn("ck.Keeper.OnAcknowledgementPacket"); f != nil {
		res0 := PIndex(PCall("chantypes.Acknowledgement.GetResult", -1, PParam("ack")), 0)
		isV1 := AEq("res == V1Result", res0, PIndex(PGlobal("ccv.V1Result"), 0))
		isHandled := AEq("res == SlashPacketHandledResult", res0, PIndex(PGlobal("ccv.SlashPacketHandledResult"), 0))
		isBounced := AEq("res == SlashPacketBouncedResult", res0, PIndex(PGlobal("ccv.SlashPacketBouncedResult"), 0))
		vscm, _ := c.ConstVal("ccv.VscMaturedPacket")
		isMatured := Atom{"packet type == VscMatured", cmpAtom(func(op token.Token, x, y ssa.Value) (bool, bool) {
			if op != token.EQL && op != token.NEQ {
				return false, false
			}
			isT := func(v ssa.Value) bool { _, n, ok := fieldLoadOf(v); return ok && n == "Type" }
			if (isT(x) && PConstInt(vscm)(y)) || (isT(y) && PConstInt(vscm)(x)) {
				return true, op == token.EQL
			}
			return false, false
		})}
		clears := Calls(f, false, "ck.Keeper.ClearSlashRecord")
		drops := Calls(f, false, "ck.Keeper.DeleteHeadOfPendingPackets")
		bounce := Calls(f, false, "ck.Keeper.UpdateSlashRecordOnBounce")
		c.Check(len(clears) >= 1 && len(drops) >= 1 && len(bounce) == 1, fk(f, "sites"), f, "clear/drop/bounce call sites present")
		hasResult := Atom{"ack has result", cmpAtom(func(op token.Token, x, y ssa.Value) (bool, bool) {
			if op != token.EQL && op != token.NEQ {
				return false, false
			}
			isR := PCall("chantypes.Acknowledgement.GetResult", -1, PParam("ack"))
			if (isR(x) && isNilConst(y)) || (isR(y) && isNilConst(x)) {
				return true, op == token.NEQ
			}
			return false, false
		})}
		lenOne := Atom{"len(res) == 1", cmpAtom(func(op token.Token, x, y ssa.Value) (bool, bool) {
			if op != token.EQL && op != token.NEQ {
				return false, false
			}
			isLen := func(v ssa.Value) bool {
				cl, ok := strip(v).(*ssa.Call)
				return ok && isCallTo(cl, "builtin.len")
			}
			if (isLen(x) && PConstInt(1)(y)) || (isLen(y) && PConstInt(1)(x)) {
				return true, op == token.EQL
			}
			return false, false
		})}
		base := []Lit{T(hasResult), T(lenOne), F(isMatured)}
		for name, sc := range map[string][]Lit{
			"v1":      append(append([]Lit{}, base...), T(isV1)),
			"handled": append(append([]Lit{}, base...), F(isV1), T(isHandled)),
		} {
			for _, r := range reachableReturns(f, sc...) {
				c.MustPassWhen(r, instrs(clears), fk(f, name, "clears-record"), sc...)
				c.MustPassWhen(r, instrs(drops), fk(f, name, "drops-head"), sc...)
			}
			for _, b := range bounce {
				c.UnreachableWhen(b, fk(f, name, "no-bounce-update"), sc...)
			}
		}
		scB := append(append([]Lit{}, base...), F(isV1), F(isHandled), T(isBounced))
		for _, r := range reachableReturns(f, scB...) {
			c.MustPassWhen(r, instrs(bounce), fk(f, "bounced", "marks-retry"), scB...)
		}
		for _, s := range append(append([]ssa.CallInstruction{}, clears...), drops...) {
			c.UnreachableWhen(s, fk(f, "bounced", "keeps-packet", shortName(calleeName(s))), scB...)
			c.UnreachableWhen(s, fk(f, "vsc-matured-ack-is-noop", shortName(calleeName(s))), T(isMatured))
		}
		scU := append(append([]Lit{}, base...), F(isV1), F(isHandled), F(isBounced))
		for _, r := range reachableReturns(f, scU...) {
			c.Check(len(successReturnsOf(r)) == 0, fk(f, "unknown-result-is-error"), r, "an unrecognised result returns an error")
		}
	}
	if f := c.Fn("ck.Keeper.PacketSendingPermitted"); f != nil {
		rec := PCall("ck.Keeper.GetSlashRecord", 0, nil)
		found := ABool("slash record found", PCall("ck.Keeper.GetSlashRecord", 1, nil))
		waiting := ABool("record.WaitingOnReply", PField(rec, "WaitingOnReply"))
		third := PCall("time.Time.After", -1, PCall("sdk.Context.BlockTime", -1, nil),
			PCall("time.Time.Add", -1, PField(rec, "SendTime"), PCall("ck.Keeper.GetRetryDelayPeriod", -1, nil)))
		nT, nF, n3 := 0, 0, 0
		for _, r := range Returns(f) {
			v := r.Results[0]
			if b, ok := constBool(v); ok && b {
				nT++
				c.UnreachableAfterHold(r, fk(f, "true-only-without-record"), found)
			} else if ok && !b {
				nF++
				c.GuardedBy(r, fk(f, "false-only-when-waiting"), found, waiting)
			} else if third(v) {
				n3++
				c.GuardedBy(r, fk(f, "retry-after-delay"), found, waiting.Not())
			} else {
				c.Check(false, fk(f, "return-shape"), r, "unexpected result "+describe(v))
			}
		}
		c.Check(nT == 1 && nF == 1 && n3 == 1, fk(f, "three-cases"), f, "no record => true; waiting => false; else BlockTime.After(SendTime + RetryDelayPeriod)")
	}
	if f := c.Fn("ck.Keeper.UpdateSlashRecordOnSend"); f != nil {
		if s := c.one(f, false, "ck.Keeper.SetSlashRecord"); s != nil {
			c.Check(PCall("ct.NewSlashRecord", -1, nil, PCall("sdk.Context.BlockTime", -1, nil), func(v ssa.Value) bool { b, ok := constBool(strip(v)); return ok && b })(arg(s, 1)),
				fk(f, "record"), s, "record = (sendTime = BlockTime, waitingOnReply = true); found "+describe(arg(s, 1)))
		}
	}
	if f := c.Fn("ck.Keeper.UpdateSlashRecordOnBounce"); f != nil {
		if s := c.one(f, false, "ck.Keeper.SetSlashRecord"); s != nil {
			// the stored record is the loaded one with WaitingOnReply := false (SendTime untouched)
			ok := false
			stores := 0
			var falseStore bool
			for _, b := range f.Blocks {
				for _, in := range b.Instrs {
					if st, isSt := in.(*ssa.Store); isSt {
						if fa, isFa := st.Addr.(*ssa.FieldAddr); isFa {
							stores++
							if fieldName(fa.X.Type(), fa.Field) == "WaitingOnReply" {
								if bv, okb := constBool(st.Val); okb && !bv {
									falseStore = true
								}
							}
						}
					}
				}
			}
			if u, isU := arg(s, 1).(*ssa.UnOp); isU {
				if a, isA := u.X.(*ssa.Alloc); isA {
					for _, r := range *a.Referrers() {
						if st, isSt := r.(*ssa.Store); isSt && st.Addr == a {
							ok = PCall("ck.Keeper.GetSlashRecord", 0, nil)(st.Val)
						}
					}
				}
			}
			c.Check(ok && stores == 1 && falseStore, fk(f, "record"), s, "stores the loaded record with only WaitingOnReply set to false")
		}
	}
}

func describeAll(vs []ssa.Value) string {
	s := "{"
	for i, v := range vs {
		if i > 0 {
			s += ", "
		}
		s += describe(v)
	}
	return s + "}"
}

// sliceLitElem: for a variadic append(xs, e) the second argument is a slice of a fresh array
// holding e; return e (or the value itself when it is not such a literal).
func sliceLitElem(v ssa.Value) ssa.Value {
	sl, ok := v.(*ssa.Slice)
	if !ok {
		return v
	}
	al, ok := sl.X.(*ssa.Alloc)
	if !ok {
		return v
	}
	for _, r := range *al.Referrers() {
		if ia, ok := r.(*ssa.IndexAddr); ok {
			for _, rr := range *ia.Referrers() {
				if st, ok := rr.(*ssa.Store); ok && st.Addr == ia {
					return st.Val
				}
			}
		}
	}
	return v
}
