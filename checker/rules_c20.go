package main

import (
	"fmt"
	"go/token"
	"strings"

	"golang.org/x/tools/go/ssa"
)

func init() {
	register(&propDef{
		ID: "C20",
		Explanation: "Decides which parameters a punishment uses and how a change becomes effective: the three punishment paths read GetInfractionParameters of the consumer being handled and use .Downtime / .DoubleSign respectively; UpdateConsumer writes the parameters directly only for a prelaunched consumer and otherwise queues them, merging unspecified halves from the current values; " +
			"UpdateQueuedInfractionParams always first removes any pending change (queued value and schedule entry), returns without queuing when the request equals the current values, and otherwise stores the queued value and schedules it at BlockTime+UnbondingTime for the same consumer; the begin-block applier sets the queued value as current and deletes it, once per scheduled id; deletion discards a pending change; SetInfractionParameters has no other run-time writer.",
		NotDecided: []string{"timing of an infraction relative to the switch (block-time order)", "behaviour when more than 200 updates are due (loop arithmetic, shared with C10.R4)"},
		Run:        runC20,
	})
}

// infractionPairing: the queued-parameters record and the schedule entry are created and removed
// together (shared by C20.R3 and, as the side-condition of a store-integrity classification, C19.R6).
func infractionPairing(c *Ctx) {
	if f := c.Fn("pk.Keeper.UpdateQueuedInfractionParams"); f != nil {
		rm := c.one(f, false, "pk.Keeper.RemoveConsumerInfractionQueuedData")
		sq := c.one(f, false, "pk.Keeper.SetQueuedInfractionParameters")
		ad := c.one(f, false, "pk.Keeper.AddToInfractionUpdateSchedule")
		if rm != nil && sq != nil && ad != nil {
			id := PParam("consumerId")
			c.Check(id(arg(rm, 1)) && id(arg(sq, 1)) && id(arg(ad, 1)), fk(f, "same-consumer"), rm, "remove, queue and schedule act on the consumerId parameter")
			for _, r := range Returns(f) {
				c.Check(mustPassBefore(r, rm), fk(f, "pending-change-removed-first"), r, "every return (including the cancelling one) passes RemoveConsumerInfractionQueuedData")
			}
			c.Check(mustPassBefore(sq, rm) && mustPassBefore(ad, sq), fk(f, "order"), ad, "remove pending, then store queued parameters, then schedule")
			same := ABool("request equals current parameters", PCall("pk.compareInfractionParameters", -1, nil, PCall("pk.Keeper.GetInfractionParameters", 0, nil, nil, id), PParam("newInfractionParams")))
			c.UnreachableWhen(sq, fk(f, "equal-request-cancels", "queue"), T(same))
			c.UnreachableWhen(ad, fk(f, "equal-request-cancels", "schedule"), T(same))
			c.Check(PParam("newInfractionParams")(arg(sq, 2)), fk(f, "queues-request"), sq, "the queued value is the requested parameters")
			t := PCall("time.Time.Add", -1, PCall("sdk.Context.BlockTime", -1, nil), PCall("ccv.StakingKeeper.UnbondingTime", 0, nil))
			c.Check(t(arg(ad, 2)), fk(f, "due-after-unbonding"), ad, "scheduled at BlockTime + UnbondingTime; found "+describe(arg(ad, 2)))
			for _, r := range successReturns(f) {
				c.MustPassWhen(r, []ssa.Instruction{sq}, fk(f, "different-request-queues"), F(same))
				c.MustPassWhen(r, []ssa.Instruction{ad}, fk(f, "different-request-schedules"), F(same))
			}
			// a stored queued value without a schedule entry cannot be left behind by a success
			rq := NewReach(f)
			rq.CutInstrs[ad] = true
			bad := false
			for _, r := range successReturns(f) {
				if rq.After(sq)[r] {
					bad = true
				}
			}
			c.Check(!bad, fk(f, "queued-implies-scheduled"), sq, "after the queued value is stored a nil return is reached only through AddToInfractionUpdateSchedule")
		}
	}
	c.KeyShapeIs("pt.InfractionScheduledTimeToConsumerIdsKey", "Const(InfractionScheduledTimeToConsumerIdsKeyName)·Time(param:updateTime)", "the schedule is scanned in time order and the scan stops at the first future entry")
	c.RunsEveryBlock("provider.AppModule.BeginBlock", "pk.Keeper.BeginBlockUpdateInfractionParameters", "applier-runs-every-block")
	// "equal request" means equal in every parameter: the helpers compare all fields
	for _, h := range []string{"pk.compareInfractionParameters", "pk.compareSlashJailParameters"} {
		if f := c.Fn(h); f != nil {
			c.ComparesAllFields(f, fk(f, "compares-every-field"))
		}
	}
	if f := c.Fn("pk.Keeper.RemoveConsumerInfractionQueuedData"); f != nil {
		has := ABool("HasQueuedInfractionParameters(id)", PCall("pk.Keeper.HasQueuedInfractionParameters", -1, nil, nil, PParam("consumerId")))
		dq := c.one(f, false, "pk.Keeper.DeleteQueuedInfractionParameters")
		gt := c.one(f, false, "pk.Keeper.GetConsumerInfractionUpdateTime")
		if dq != nil && gt != nil {
			c.Check(PParam("consumerId")(arg(dq, 1)) && PParam("consumerId")(arg(gt, 1)), fk(f, "same-consumer"), dq, "acts on the consumerId parameter")
			for _, r := range Returns(f) {
				c.MustPassWhen(r, []ssa.Instruction{dq}, fk(f, "drops-queued-value"), T(has))
				c.MustPassWhen(r, []ssa.Instruction{gt}, fk(f, "drops-schedule-entry"), T(has))
			}
		}
	}
	if f := c.Fn("pk.Keeper.GetConsumerInfractionUpdateTime"); f != nil {
		// the whole schedule is searched (an entry may be older than the block time: more than the
		// per-block limit due at once, or a deletion in the block in which it is due)
		n := 0
		for _, cl := range AllCalls(f, false) {
			if k, ok := cl.(*ssa.Call); ok && isIteratorCtor(k) {
				n++
				okFull := strings.HasSuffix(calleeName(k), ".KVStorePrefixIterator") && isSchedulePrefixOnly(arg(k, 1))
				c.Check(okFull, fk(f, "searches-whole-schedule"), k, "the lookup iterates the full schedule prefix (prefix iterator over the one-byte prefix); found "+shortName(calleeName(k))+"("+describe(arg(k, 1))+")")
			}
		}
		c.Check(n == 1, fk(f, "searches-whole-schedule", "census"), f, fmt.Sprintf("%d iterators in the lookup", n))
		// finds the id in the schedule and removes exactly that entry
		if rm := c.one(f, false, "pk.Keeper.RemoveFromInfractionUpdateSchedule"); rm != nil {
			ok := PParam("consumerId")(arg(rm, 1)) && PCall("pt.ParseTime", 0, nil)(arg(rm, 2))
			c.Check(ok, fk(f, "removes-own-entry"), rm, "removes (consumerId, the timestamp under which it was found)")
			eq := false
			for _, g := range allInstrs(f) {
				if b, isB := g.(*ssa.BinOp); isB && (isParam(b.X, "consumerId") || isParam(b.Y, "consumerId")) {
					eq = true
				}
			}
			c.Check(eq, fk(f, "matches-own-id"), f, "the schedule is searched for the consumerId parameter")
		}
	}
	if f := c.Fn("pk.Keeper.BeginBlockUpdateInfractionParameters"); f != nil {
		id := PElemOf(PCall("pk.Keeper.ConsumeIdsFromTimeQueue", 0, nil))
		gq := c.one(f, false, "pk.Keeper.GetQueuedInfractionParameters")
		st := c.one(f, false, "pk.Keeper.SetInfractionParameters")
		dq := c.one(f, false, "pk.Keeper.DeleteQueuedInfractionParameters")
		if gq != nil && st != nil && dq != nil {
			c.Check(id(arg(gq, 1)) && id(arg(st, 1)) && id(arg(dq, 1)), fk(f, "same-consumer"), st, "get, set and delete act on the scheduled id of this iteration")
			c.Check(PIs(extractOf(gq, 0))(arg(st, 2)), fk(f, "applies-queued-value"), st, "the value made current is the queued value")
			c.Check(mustPassBefore(st, gq) && mustPassBefore(dq, st), fk(f, "order"), dq, "read queued, set current, delete queued")
			// applied exactly once per id: from the set, the next iteration is reached only through the delete
			rq, _ := reachUnder(f, T(AErrNil("SetInfractionParameters ok", PIs(st.Value()))))
			rq.CutInstrs[dq] = true
			after := rq.After(st)
			bad := after[gq.(ssa.Instruction)]
			for _, r := range successReturns(f) {
				if after[r] {
					bad = true
				}
			}
			c.Check(!bad, fk(f, "applied-then-discarded"), dq, "after applying, the queued value is always deleted before the next id / the return")
		}
	}
}

func runC20(c *Ctx) {
	// ---- R1 ------------------------------------------------------------------------------------
	c.Rule("R1", "parameters in force: HandleSlashPacket uses GetInfractionParameters(ctx, consumerId).Downtime; HandleConsumerDoubleVoting and HandleConsumerMisbehaviour pass GetInfractionParameters(ctx, consumerId).DoubleSign to SlashValidator and JailAndTombstoneValidator; those use the parameters they were given", 9)
	if f := c.Fn("pk.Keeper.HandleSlashPacket"); f != nil {
		params := PCall("pk.Keeper.GetInfractionParameters", 0, nil, nil, PParam("consumerId"))
		if sl := c.one(f, false, "ccv.StakingKeeper.SlashWithInfractionReason"); sl != nil {
			c.Check(PField(params, "Downtime", "SlashFraction")(arg(sl, 4)), fk(f, "downtime-fraction"), sl, "slash fraction = this consumer's Downtime.SlashFraction; found "+describe(arg(sl, 4)))
		}
		if ju := c.one(f, false, "ccv.SlashingKeeper.JailUntil"); ju != nil {
			c.Check(PCall("time.Time.Add", -1, nil, PField(params, "Downtime", "JailDuration"))(arg(ju, 2)), fk(f, "downtime-jail"), ju, "jail duration = this consumer's Downtime.JailDuration; found "+describe(arg(ju, 2)))
		}
	}
	for _, fn := range []string{"pk.Keeper.HandleConsumerDoubleVoting", "pk.Keeper.HandleConsumerMisbehaviour"} {
		f := c.Fn(fn)
		if f == nil {
			continue
		}
		params := PCall("pk.Keeper.GetInfractionParameters", 0, nil, nil, PParam("consumerId"))
		n := 0
		for _, s := range Calls(f, false, "pk.Keeper.SlashValidator", "pk.Keeper.JailAndTombstoneValidator") {
			n++
			c.Check(PField(params, "DoubleSign")(arg(s, 2)), fk(f, "double-sign-params", shortName(calleeName(s))), s, "receives this consumer's DoubleSign parameters; found "+describe(arg(s, 2)))
		}
		c.Check(n == 2, fk(f, "both-punishments"), f, "slashes and jails")
	}
	if f := c.Fn("pk.Keeper.SlashValidator"); f != nil {
		if sl := c.one(f, false, "ccv.StakingKeeper.SlashWithInfractionReason"); sl != nil {
			c.Check(PField(PParam("slashingParams"), "SlashFraction")(arg(sl, 4)), fk(f, "uses-given-fraction"), sl, "fraction = slashingParams.SlashFraction; found "+describe(arg(sl, 4)))
		}
	}
	if f := c.Fn("pk.Keeper.JailAndTombstoneValidator"); f != nil {
		if ju := c.one(f, false, "ccv.SlashingKeeper.JailUntil"); ju != nil {
			c.Check(PCall("time.Time.Add", -1, PCall("sdk.Context.BlockTime", -1, nil), PField(PParam("jailingParams"), "JailDuration"))(arg(ju, 2)), fk(f, "uses-given-duration"), ju, "jail end = BlockTime + jailingParams.JailDuration")
		}
		if tb := c.one(f, false, "ccv.SlashingKeeper.Tombstone"); tb != nil {
			c.GuardedBy(tb, fk(f, "tombstone-per-setting"), ABool("jailingParams.Tombstone", PField(PParam("jailingParams"), "Tombstone")))
		}
	}

	// ---- R2 ------------------------------------------------------------------------------------
	c.Rule("R2", "UpdateConsumer: prelaunched => SetInfractionParameters now, else UpdateQueuedInfractionParams; nil halves are filled from the current parameters; SetInfractionParameters run-time writers: create, prelaunch update, begin-block applier", 6)
	c.OnlyCalledFrom("pk.Keeper.SetInfractionParameters", "pk.msgServer.CreateConsumer", "pk.msgServer.UpdateConsumer", "pk.Keeper.BeginBlockUpdateInfractionParameters")
	c.OnlyCalledFrom("pk.Keeper.SetQueuedInfractionParameters", "pk.Keeper.UpdateQueuedInfractionParams")
	c.OnlyCalledFrom("pk.Keeper.UpdateQueuedInfractionParams", "pk.msgServer.UpdateConsumer")
	if f := c.Fn("pk.msgServer.UpdateConsumer"); f != nil {
		id := PField(PParam("msg"), "ConsumerId")
		pre := ABool("IsConsumerPrelaunched(id)", PCall("pk.Keeper.IsConsumerPrelaunched", -1, nil, nil, id))
		st := c.one(f, false, "pk.Keeper.SetInfractionParameters")
		uq := c.one(f, false, "pk.Keeper.UpdateQueuedInfractionParams")
		if st != nil && uq != nil {
			c.GuardedBy(st, fk(f, "immediate-only-prelaunch"), pre)
			c.UnreachableWhen(uq, fk(f, "queued-only-after-launch"), T(pre))
			c.Check(id(arg(st, 1)) && id(arg(uq, 1)) && sameVal(arg(st, 2), arg(uq, 2)), fk(f, "same-request"), uq, "both branches act on msg.ConsumerId with the same merged parameters")
			hasReq := Atom{"msg.InfractionParameters != nil", cmpAtom(func(op token.Token, x, y ssa.Value) (bool, bool) {
				p := PField(PParam("msg"), "InfractionParameters")
				if (op == token.EQL || op == token.NEQ) && ((p(x) && isNilConst(y)) || (p(y) && isNilConst(x))) {
					return true, op == token.NEQ
				}
				return false, false
			})}
			for _, r := range successReturns(f) {
				c.MustPassWhen(r, []ssa.Instruction{st, uq}, fk(f, "request-is-processed"), T(hasReq))
			}
		}
	}

	// ---- R3/R4/R5 --------------------------------------------------------------------------------
	c.Rule("R3", "pending-change discipline: UpdateQueuedInfractionParams removes any pending change first on every path, cancels on an equal request, otherwise stores and schedules at BlockTime+UnbondingTime for the same consumer; the begin-block applier applies the queued value once and discards it; at most one change is pending", 18)
	infractionPairing(c)

	c.Rule("R5", "deletion discards a pending change: DeleteConsumerChain calls RemoveConsumerInfractionQueuedData for its consumer", 1)
	if f := c.Fn("pk.Keeper.DeleteConsumerChain"); f != nil {
		if cl := c.one(f, false, "pk.Keeper.RemoveConsumerInfractionQueuedData"); cl != nil {
			ok := PParam("consumerId")(arg(cl, 1))
			for _, r := range successReturns(f) {
				ok = ok && mustPassBefore(r, cl)
			}
			c.Check(ok, fk(f, "discards-pending-change"), cl, "every successful deletion passes RemoveConsumerInfractionQueuedData(consumerId)")
		}
	}
}

// isSchedulePrefixOnly: []byte{InfractionScheduledTimeToConsumerIdsKeyPrefix()}.
func isSchedulePrefixOnly(v ssa.Value) bool {
	return PCall("pt.InfractionScheduledTimeToConsumerIdsKeyPrefix", -1, nil)(sliceLitElem(v))
}
