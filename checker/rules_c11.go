package main

import (
	"fmt"
	"go/token"
	"go/types"
	"sort"
	"strings"

	"golang.org/x/tools/go/ssa"
)

func init() {
	register(&propDef{
		ID: "C11",
		Explanation: "Decides: the epoch loops touch a consumer only under phase == LAUNCHED; stopping writes exactly phase, removal time and removal-queue entry with one time value BlockTime+UnbondingTime; all four stop triggers reach it (owner message under owner and LAUNCHED checks, timeout, error acknowledgement, non-expired send failure) and the expired-client branch does not; " +
			"DeleteConsumerChain is reachable only from the removal-queue driver, deletes only under phase == STOPPED and ends with DELETED; cleanup is exhaustive: every per-consumer key space derived from the key constructors is deleted by DeleteConsumerChain for its id or is in the explicit retained table; " +
			"the state that must survive until removal (key assignments, client and channel bindings, genesis, evidence height, init height) has no other deleter reachable at run time.",
		NotDecided: []string{"the length of the retention period in wall-clock terms (needs block-time order)", "that IBC actually closes the channel (external)"},
		Run:        runC11,
	})
}

// retained on deletion, with the reason (a new per-consumer key space without cleanup is NOT covered
// by this table and fails R5)
var retainedSpaces = map[string]string{
	"ConsumerIdToChainIdKey":                  "descriptive record kept after deletion (queries, evidence for deleted chains are rejected by client lookup)",
	"ConsumerIdToOwnerAddress":                "descriptive record",
	"ConsumerIdToMetadataKey":                 "descriptive record",
	"ConsumerIdToInitializationParametersKey": "descriptive record",
	"ConsumerIdToPowerShapingParametersKey":   "descriptive record",
	"ConsumerIdToPhaseKey":                    "the DELETED marker itself",
	"ConsumerIdToInfractionParametersKey":     "descriptive record (current parameters)",
	"ConsumerIdToAllowlistedRewardDenomKey":   "reward bookkeeping kept so that late transfers are still attributable",
	"ConsumerRewardsAllocationByDenomKey":     "credited rewards must remain payable after deletion",
}

// deletersOf computes, per key-space name, the keeper functions that determine a store.Delete in
// that space. A delete whose key is built from the function's own parameter (generic helpers such
// as deleteValSet(prefix) or removeConsumerIdFromTime(key func)) is attributed to the callers that
// supply the prefix / key constructor (propagated up to three levels).
func deletersOf(c *Ctx) map[string]map[string]bool {
	ke := &keyEval{p: c.P}
	out := map[string]map[string]bool{}
	add := func(space string, f *ssa.Function) {
		if space == "" {
			return
		}
		if out[space] == nil {
			out[space] = map[string]bool{}
		}
		out[space][ssaFuncName(topFn(f))] = true
	}
	// pending: function -> parameter (by index) whose value decides the key space
	type dep struct {
		fn  *ssa.Function
		idx int
	}
	var pending []dep
	paramIndex := func(f *ssa.Function, name string) int {
		for i, p := range f.Params {
			if p.Name() == name {
				return i
			}
		}
		return -1
	}
	classify := func(f *ssa.Function, sh []Seg, keyExpr ssa.Value) bool {
		if n := shapeLeading(sh); n != "" {
			if strings.HasPrefix(n, "param:") {
				if i := paramIndex(f, strings.TrimPrefix(n, "param:")); i >= 0 {
					pending = append(pending, dep{f, i})
					return true
				}
				return false
			}
			add(n, f)
			return true
		}
		if len(sh) > 0 && sh[0].Kind == SegRaw && strings.HasPrefix(sh[0].Src, "param:") {
			if i := paramIndex(f, strings.TrimPrefix(sh[0].Src, "param:")); i >= 0 {
				pending = append(pending, dep{f, i})
				return true
			}
		}
		// key(time): call through a function-typed parameter
		if keyExpr != nil {
			if cl, ok := strip(keyExpr).(*ssa.Call); ok {
				if p, ok := cl.Call.Value.(*ssa.Parameter); ok {
					if i := paramIndex(f, p.Name()); i >= 0 {
						pending = append(pending, dep{f, i})
						return true
					}
				}
			}
		}
		return false
	}
	for _, f := range c.P.ModuleFuncs("pk") {
		dels := Calls(f, false, "store.KVStore.Delete")
		if len(dels) == 0 {
			continue
		}
		type itp struct {
			sh  []Seg
			val ssa.Value
		}
		var iters []itp
		for _, cl := range AllCalls(f, false) {
			if isCallTo(cl, "store.KVStorePrefixIterator", "store.KVStoreReversePrefixIterator") {
				iters = append(iters, itp{ke.evalBytes(arg(cl, 1), nil), arg(cl, 1)})
			}
			if isCallTo(cl, "store.KVStore.Iterator", "store.KVStore.ReverseIterator") {
				iters = append(iters, itp{ke.evalBytes(arg(cl, 0), nil), arg(cl, 0)})
			}
		}
		for _, d := range dels {
			sh := ke.evalBytes(arg(d, 0), nil)
			if classify(f, sh, arg(d, 0)) {
				continue
			}
			// keys taken from an iterator of this function (directly or via a collected slice)
			ok := len(iters) > 0
			for _, it := range iters {
				if !classify(f, it.sh, it.val) {
					ok = false
				}
			}
			if !ok {
				add("?unknown:"+shapeString(sh), f)
			}
		}
	}
	for round := 0; round < 3 && len(pending) > 0; round++ {
		cur := pending
		pending = nil
		for _, d := range cur {
			sites, oob := c.Callers(ssaFuncName(d.fn))
			for _, s := range append(sites, oob...) {
				cl, ok := s.(ssa.CallInstruction)
				if !ok || cl.Common().StaticCallee() != d.fn || d.idx >= len(cl.Common().Args) {
					continue
				}
				a := cl.Common().Args[d.idx]
				caller := s.Parent()
				switch x := a.(type) {
				case *ssa.Function:
					add(leadingConst(ke.evalFunc(x, nil, nil)), caller)
					continue
				case *ssa.MakeClosure:
					if fn, ok := x.Fn.(*ssa.Function); ok {
						add(leadingConst(ke.evalFunc(resolveWrapper(fn), nil, nil)), caller)
					}
					continue
				}
				if b, ok := a.Type().Underlying().(*types.Basic); ok && b.Kind() == types.Uint8 {
					bc := ke.evalByte(a, nil)
					if strings.HasPrefix(bc.name, "param:") {
						if i := paramIndex(caller, strings.TrimPrefix(bc.name, "param:")); i >= 0 {
							pending = append(pending, dep{caller, i})
						}
					} else {
						add(bc.name, caller)
					}
					continue
				}
				sh := ke.evalBytes(a, nil)
				if !classify(caller, sh, a) {
					add("?unknown:"+shapeString(sh), caller)
				}
			}
		}
	}
	return out
}

func shapeLeading(sh []Seg) string {
	if n := leadingConst(sh); n != "" {
		return n
	}
	// phi of alternatives with the same leading constant
	if len(sh) == 1 && sh[0].Kind == SegUnknown && strings.HasPrefix(sh[0].Src, "phi{") {
		alts := strings.Split(strings.TrimSuffix(strings.TrimPrefix(sh[0].Src, "phi{"), "}"), " | ")
		n := ""
		for _, a := range alts {
			l := leadingConst(parseShape(a))
			if l == "" || (n != "" && l != n) {
				return ""
			}
			n = l
		}
		return n
	}
	return ""
}

// reachableFuncs: module functions reachable from fn through static calls / function values.
func reachableFuncs(p *Prog, from *ssa.Function) map[string]bool {
	out := map[string]bool{}
	var walk func(f *ssa.Function)
	walk = func(f *ssa.Function) {
		n := ssaFuncName(f)
		if out[n] || f.Blocks == nil {
			return
		}
		out[n] = true
		for _, in := range allInstrsDeep(f) {
			if cl, ok := in.(ssa.CallInstruction); ok {
				if callee := cl.Common().StaticCallee(); callee != nil && strings.HasPrefix(fnPkgPath(callee), modPath) {
					walk(callee)
				}
			}
			for _, op := range in.Operands(nil) {
				if fv, ok := (*op).(*ssa.Function); ok && strings.HasPrefix(fnPkgPath(fv), modPath) {
					walk(fv)
				}
			}
		}
	}
	walk(from)
	return out
}

func allInstrsDeep(f *ssa.Function) []ssa.Instruction {
	out := allInstrs(f)
	for _, a := range f.AnonFuncs {
		out = append(out, allInstrsDeep(a)...)
	}
	return out
}

func runC11(c *Ctx) {
	launched, _ := c.ConstVal("pt.CONSUMER_PHASE_LAUNCHED")
	stopped, _ := c.ConstVal("pt.CONSUMER_PHASE_STOPPED")
	deleted, _ := c.ConstVal("pt.CONSUMER_PHASE_DELETED")

	// ---- R1 ------------------------------------------------------------------------------------
	c.Rule("R1", "launched filter: in QueueVSCPackets and SendVSCPackets every per-consumer call other than the phase read is reached only when GetConsumerPhase(ctx, loop id) == LAUNCHED", 8)
	for _, fn := range []string{"pk.Keeper.QueueVSCPackets", "pk.Keeper.SendVSCPackets"} {
		f := c.Fn(fn)
		if f == nil {
			continue
		}
		loopId := PElemOf(PCall("pk.Keeper.GetAllConsumersWithIBCClients", -1, nil))
		isLaunched := AEq("phase(loop id) == LAUNCHED", PCall("pk.Keeper.GetConsumerPhase", -1, nil, nil, loopId), PConstInt(launched))
		n := 0
		for _, cl := range AllCalls(f, false) {
			callee := cl.Common().StaticCallee()
			if callee == nil || isCallTo(cl, "pk.Keeper.GetConsumerPhase") {
				continue
			}
			usesId := false
			for _, a := range cl.Common().Args {
				if loopId(a) {
					usesId = true
				}
			}
			if !usesId || !strings.HasPrefix(fnPkgPath(callee), modPath) {
				continue
			}
			n++
			c.GuardedBy(cl, fk(f, "launched-only", shortName(calleeName(cl))), isLaunched)
		}
		c.Check(n >= 2, fk(f, "per-consumer-calls"), f, fmt.Sprintf("%d per-consumer calls discovered", n))
	}

	// ---- R2 ------------------------------------------------------------------------------------
	c.Rule("R2", "StopAndPrepareForConsumerRemoval: phase := STOPPED, removal time and removal-queue entry use one value BlockTime+UnbondingTime for the same consumer; its module writes are exactly these three", 5)
	if f := c.Fn("pk.Keeper.StopAndPrepareForConsumerRemoval"); f != nil {
		sp := c.one(f, false, "pk.Keeper.SetConsumerPhase")
		rt := c.one(f, false, "pk.Keeper.SetConsumerRemovalTime")
		aq := c.one(f, false, "pk.Keeper.AppendConsumerToBeRemoved")
		if sp != nil && rt != nil && aq != nil {
			t := PCall("time.Time.Add", -1, PCall("sdk.Context.BlockTime", -1, nil), PCall("ccv.StakingKeeper.UnbondingTime", 0, nil))
			c.Check(PParam("consumerId")(arg(sp, 1)) && PConstInt(stopped)(arg(sp, 2)), fk(f, "phase"), sp, "SetConsumerPhase(consumerId, STOPPED)")
			c.Check(PParam("consumerId")(arg(rt, 1)) && t(arg(rt, 2)), fk(f, "removal-time"), rt, "removal time = BlockTime + UnbondingTime; found "+describe(arg(rt, 2)))
			c.Check(PParam("consumerId")(arg(aq, 1)) && sameVal(arg(aq, 2), arg(rt, 2)), fk(f, "queue-same-time"), aq, "the queue entry uses the same time value as the stored removal time")
			for _, r := range successReturns(f) {
				c.Check(mustPassBefore(r, sp) && mustPassBefore(r, rt) && mustPassBefore(r, aq), fk(f, "success-does-all"), r, "a nil return implies all three writes")
			}
			n := 0
			for _, cl := range AllCalls(f, false) {
				if isStateEffect(cl) {
					n++
				}
			}
			c.Check(n == 3, fk(f, "writes-nothing-else"), f, fmt.Sprintf("exactly three state-changing calls (found %d): stopping deletes nothing", n))
		}
	}

	// ---- R3 ------------------------------------------------------------------------------------
	c.Rule("R3", "stop triggers: owner message (owner and LAUNCHED checks), packet timeout, error acknowledgement and non-expired send failure all reach StopAndPrepareForConsumerRemoval for the affected consumer; the expired-client branch does not", 9)
	c.OnlyCalledFrom("pk.Keeper.StopAndPrepareForConsumerRemoval", "pk.msgServer.RemoveConsumer", "pk.Keeper.SendVSCPacketsToChain", "pk.Keeper.OnTimeoutPacket", "pk.Keeper.OnAcknowledgementPacket")
	if f := c.Fn("pk.msgServer.RemoveConsumer"); f != nil {
		if st := c.one(f, false, "pk.Keeper.StopAndPrepareForConsumerRemoval"); st != nil {
			id := PField(PParam("msg"), "ConsumerId")
			isOwner := AEq("msg.Owner == stored owner", PField(PParam("msg"), "Owner"), PCall("pk.Keeper.GetConsumerOwnerAddress", 0, nil, nil, id))
			isL := AEq("phase == LAUNCHED", PCall("pk.Keeper.GetConsumerPhase", -1, nil, nil, id), PConstInt(launched))
			c.GuardedBy(st, fk(f, "stop-guard"), isOwner, isL)
			c.Check(id(arg(st, 1)), fk(f, "stops-named-consumer"), st, "stops msg.ConsumerId")
			// returns reachable once both checks passed
			rq, _ := reachUnder(f, T(isOwner), T(isL))
			nR := 0
			for _, g := range ifsTesting(f, isL.Fn) {
				tgt := g.If.Block().Succs[g.HoldIdx]
				after := rq.From(tgt.Instrs[0])
				for _, r := range Returns(f) {
					if !after[r] {
						continue
					}
					nR++
					rq2, _ := reachUnder(f, T(isOwner), T(isL))
					rq2.CutInstrs[st] = true
					c.Check(!rq2.From(tgt.Instrs[0])[r], fk(f, "owner-request-stops"), r, "once the owner and LAUNCHED checks passed every return passes StopAndPrepareForConsumerRemoval")
					c.Check(PIs(st.Value())(r.Results[1]), fk(f, "returns-stop-error"), r, "the handler returns StopAndPrepareForConsumerRemoval's error (a failed stop rolls the message back)")
				}
			}
			c.Check(nR > 0, fk(f, "has-accepting-return"), f, "an accepted request reaches a return")
		}
	}
	if f := c.Fn("pk.Keeper.OnTimeoutPacket"); f != nil {
		if st := c.one(f, false, "pk.Keeper.StopAndPrepareForConsumerRemoval"); st != nil {
			cid := PCall("pk.Keeper.GetChannelIdToConsumerId", 0, nil, nil, PField(PParam("packet"), "SourceChannel"))
			found := ABool("channel bound", PCall("pk.Keeper.GetChannelIdToConsumerId", 1, nil, nil, PField(PParam("packet"), "SourceChannel")))
			c.Check(cid(arg(st, 1)), fk(f, "stops-channel-consumer"), st, "stops the consumer bound to the packet's source channel")
			for _, r := range reachableReturns(f, T(found)) {
				c.MustPassWhen(r, []ssa.Instruction{st}, fk(f, "timeout-stops"), T(found))
			}
		}
	}
	if f := c.Fn("pk.Keeper.OnAcknowledgementPacket"); f != nil {
		if st := c.one(f, false, "pk.Keeper.StopAndPrepareForConsumerRemoval"); st != nil {
			cid := PCall("pk.Keeper.GetChannelIdToConsumerId", 0, nil, nil, PField(PParam("packet"), "SourceChannel"))
			found := ABool("channel bound", PCall("pk.Keeper.GetChannelIdToConsumerId", 1, nil, nil, PField(PParam("packet"), "SourceChannel")))
			isErr := Atom{"ack.GetError() != \"\"", cmpAtom(func(op token.Token, x, y ssa.Value) (bool, bool) {
				isE := PCall("chantypes.Acknowledgement.GetError", -1, PParam("ack"))
				empty := func(v ssa.Value) bool { s, ok := constString(v); return ok && s == "" }
				if (op == token.EQL || op == token.NEQ) && ((isE(x) && empty(y)) || (isE(y) && empty(x))) {
					return true, op == token.NEQ
				}
				return false, false
			})}
			c.Check(cid(arg(st, 1)), fk(f, "stops-channel-consumer"), st, "stops the consumer bound to the packet's source channel")
			c.GuardedBy(st, fk(f, "only-error-ack"), isErr)
			for _, r := range reachableReturns(f, T(isErr), T(found)) {
				c.MustPassWhen(r, []ssa.Instruction{st}, fk(f, "error-ack-stops"), T(isErr), T(found))
			}
		}
	}
	if f := c.Fn("pk.Keeper.SendVSCPacketsToChain"); f != nil {
		send := c.one(f, false, "ccv.SendIBCPacket")
		st := c.one(f, false, "pk.Keeper.StopAndPrepareForConsumerRemoval")
		if send != nil && st != nil {
			sendOK := AErrNil("SendIBCPacket ok", PIs(send.Value()))
			expired := ABool("errors.Is(err, ErrClientNotActive)", PCall("errors.Is", -1, nil, PIs(send.Value()), PGlobal("clienttypes.ErrClientNotActive")))
			c.Check(PParam("consumerId")(arg(st, 1)), fk(f, "stops-own-consumer"), st, "stops the consumerId parameter")
			c.GuardedBy(st, fk(f, "stop-guard"), sendOK.Not(), expired.Not())
			rq, _ := reachUnder(f, F(sendOK), F(expired))
			rq.CutInstrs[st] = true
			after := rq.After(send)
			bad := false
			for _, r := range Returns(f) {
				if after[r] {
					bad = true
				}
			}
			c.Check(!bad, fk(f, "send-failure-stops"), st, "after a failed send on a non-expired client every path to a return passes the stop")
		}
	}

	// ---- R4 ------------------------------------------------------------------------------------
	c.Rule("R4", "DeleteConsumerChain: called only by the removal-queue driver with ids of the consumed removal queue; every deletion inside is reached only when phase == STOPPED; success ends with SetConsumerPhase(DELETED)", 5)
	c.OnlyCalledFrom("pk.Keeper.DeleteConsumerChain", "pk.Keeper.BeginBlockRemoveConsumers")
	if f := c.Fn("pk.Keeper.BeginBlockRemoveConsumers"); f != nil {
		if d := c.one(f, false, "pk.Keeper.DeleteConsumerChain"); d != nil {
			okQ := false
			for _, r := range elementSource(arg(d, 1)) {
				cl, i := callOf(r)
				okQ = cl != nil && isCallTo(cl, "pk.Keeper.ConsumeIdsFromTimeQueue") && i == 0 && PCall("pt.RemovalTimeToConsumerIdsKeyPrefix", -1, nil)(arg(cl, 1))
			}
			c.Check(okQ, fk(f, "ids-from-removal-queue"), d, "deleted ids are the elements consumed from the removal-time queue")
		}
		// ids beyond the per-block limit go back to the removal queue (not to another queue)
		checkQueueBundles(c, "pk.Keeper.BeginBlockRemoveConsumers")
		c.RunsEveryBlock("provider.AppModule.BeginBlock", "pk.Keeper.BeginBlockRemoveConsumers", "removal-driver-runs-every-block")
		c.KeyShapeIs("pt.RemovalTimeToConsumerIdsKey", "Const(RemovalTimeToConsumerIdsKeyName)·Time(param:removalTime)", "the removal queue is scanned in time order and the scan stops at the first future entry")
	}
	if f := c.Fn("pk.Keeper.DeleteConsumerChain"); f != nil {
		isStopped := AEq("phase == STOPPED", PCall("pk.Keeper.GetConsumerPhase", -1, nil, nil, PParam("consumerId")), PConstInt(stopped))
		n := 0
		for _, cl := range AllCalls(f, false) {
			if isStateEffect(cl) {
				n++
				ok, _ := Guarded(cl, isStopped.Fn)
				if !ok {
					c.Check(false, fk(f, "stopped-only", shortName(calleeName(cl))), cl, "state change reached without phase == STOPPED")
				}
			}
		}
		c.Check(n >= 15, fk(f, "stopped-only"), f, fmt.Sprintf("all %d state-changing calls are reached only when phase == STOPPED", n))
		sps := Calls(f, false, "pk.Keeper.SetConsumerPhase")
		okD := len(sps) == 1 && PParam("consumerId")(arg(sps[0], 1)) && PConstInt(deleted)(arg(sps[0], 2))
		c.Check(okD, fk(f, "marks-deleted"), f, "SetConsumerPhase(consumerId, DELETED)")
		if okD {
			for _, r := range successReturns(f) {
				c.Check(mustPassBefore(r, sps[0]), fk(f, "success-marks-deleted"), r, "a nil return implies the DELETED marker")
			}
		}
		// the removal queue entry is consumed before the deletion is attempted and the driver
		// discards the cached context on an error, so an error for a STOPPED consumer means the
		// consumer is never deleted: for a STOPPED consumer the function must return nil
		rets := reachableReturns(f, T(isStopped))
		okNil := len(rets) > 0
		var badRet ssa.Instruction = nil
		for _, r := range rets {
			if len(r.Results) != 1 {
				okNil = false
				continue
			}
			for _, rt := range roots(r.Results[0]) {
				if !isNilConst(rt) {
					okNil, badRet = false, r
				}
			}
		}
		if badRet == nil {
			c.Check(okNil, fk(f, "stopped-consumer-deletion-cannot-fail"), f, fmt.Sprintf("under phase == STOPPED all %d reachable returns return the nil constant (a failed channel close is logged, not returned)", len(rets)))
		} else {
			c.Check(false, fk(f, "stopped-consumer-deletion-cannot-fail"), badRet, "under phase == STOPPED a return may carry "+describe(badRet.(*ssa.Return).Results[0])+"; the driver would discard the deletion and the consumed queue entry is never retried")
		}
	}

	// ---- R5 ------------------------------------------------------------------------------------
	c.Rule("R5", "exhaustive cleanup: every per-consumer key space (constructor with a consumerId parameter) is deleted by a function reachable from DeleteConsumerChain, or is listed as retained with a reason; the two reverse indexes and the queue entries are removed as well", 28)
	checkIterDelete(c, 6, "pk")
	dels := deletersOf(c)
	for sp := range dels {
		if strings.HasPrefix(sp, "?unknown") {
			var fs []string
			for f := range dels[sp] {
				fs = append(fs, shortName(f))
			}
			c.Undecided("store.Delete/"+sp, nil, "store.Delete with a key of unknown key space in "+strings.Join(fs, ","))
		}
	}
	if f := c.Fn("pk.Keeper.DeleteConsumerChain"); f != nil {
		reach := reachableFuncs(c.P, f)
		seen := map[string]bool{}
		var spaces []keySpace
		for _, ks := range keyCtors(c, "pt") {
			if ks.HasID && ks.Name != "" && !seen[ks.Name] {
				seen[ks.Name] = true
				spaces = append(spaces, ks)
			}
		}
		sort.Slice(spaces, func(i, j int) bool { return spaces[i].Name < spaces[j].Name })
		for _, ks := range spaces {
			key := "keyspace/" + ks.Name
			if why, ok := retainedSpaces[ks.Name]; ok {
				c.Check(true, key, ks.Ctor, "retained on deletion: "+why)
				continue
			}
			var by []string
			for fn := range dels[ks.Name] {
				if reach[fn] {
					by = append(by, shortName(fn))
				}
			}
			sort.Strings(by)
			c.Check(len(by) > 0, key, ks.Ctor, fmt.Sprintf("deleted on removal by %v (shape %s)", by, shapeString(ks.Shape)))
		}
		// stale retained entries (a retained name that no longer exists) are reported
		for name := range retainedSpaces {
			if !seen[name] {
				c.Undecided("retained/"+name, nil, "retained key space no longer exists (table entry is stale)")
			}
		}
		for _, extra := range []struct{ space, what string }{
			{"ClientIdToConsumerIdKey", "client->consumer reverse index"},
			{"ChannelToConsumerIdKey", "channel->consumer reverse index"},
		} {
			var by []string
			for fn := range dels[extra.space] {
				if reach[fn] {
					by = append(by, shortName(fn))
				}
			}
			c.Check(len(by) > 0, "keyspace/"+extra.space, f, fmt.Sprintf("%s removed on deletion by %v", extra.what, by))
		}
		for _, callee := range []string{"pk.Keeper.DeleteConsumerRemovalTime", "pk.Keeper.RemoveConsumerInfractionQueuedData", "pk.Keeper.DeleteKeyAssignments"} {
			if cl := c.one(f, false, callee); cl != nil {
				c.Check(PParam("consumerId")(arg(cl, 1)), fk(f, "calls", shortName(q(callee))), cl, "cleanup of the consumerId parameter")
			}
		}
		// every cleanup step is unconditional for a STOPPED consumer, except the channel steps (only
		// when a channel was bound) and the per-validator commission loop
		conditional := map[string]string{
			q("pk.Keeper.chanCloseInit"):               "only for an open channel",
			q("pk.Keeper.DeleteConsumerIdToChannelId"): "only when a channel was bound (checked below)",
			q("pk.Keeper.DeleteChannelIdToConsumerId"): "only when a channel was bound (checked below)",
		}
		stoppedA := AEq("phase == STOPPED", PCall("pk.Keeper.GetConsumerPhase", -1, nil, nil, PParam("consumerId")), PConstInt(stopped))
		nUncond := 0
		for _, cl := range AllCalls(f, false) {
			if !isStateEffect(cl) || inLoop(cl) {
				continue
			}
			if _, isCond := conditional[calleeName(cl)]; isCond {
				continue
			}
			nUncond++
			for _, r := range reachableReturns(f, T(stoppedA)) {
				c.Check(mustPassBefore(r, cl), fk(f, "unconditional-cleanup", shortName(calleeName(cl))), cl, "every return of a STOPPED consumer's deletion passes "+shortName(calleeName(cl))+" (not only the branch with a bound channel)")
			}
		}
		c.Check(nUncond >= 12, fk(f, "unconditional-cleanup", "census"), f, fmt.Sprintf("%d unconditional cleanup steps", nUncond))
		// both channel indexes go whenever a channel was bound (also when it is already closed)
		chFound := ABool("channel bound", PCall("pk.Keeper.GetConsumerIdToChannelId", 1, nil, nil, PParam("consumerId")))
		for _, callee := range []string{"pk.Keeper.DeleteConsumerIdToChannelId", "pk.Keeper.DeleteChannelIdToConsumerId"} {
			if cl := c.one(f, false, callee); cl != nil {
				for _, r := range successReturns(f) {
					c.MustPassWhen(r, []ssa.Instruction{cl}, fk(f, "channel-binding-removed", shortName(q(callee))), T(chFound))
				}
			}
		}
		if cl := c.one(f, false, "pk.Keeper.chanCloseInit"); cl != nil {
			c.Check(PCall("pk.Keeper.GetConsumerIdToChannelId", 0, nil, nil, PParam("consumerId"))(arg(cl, 1)), fk(f, "closes-own-channel"), cl, "closes the channel bound to this consumer")
		}
	}

	// ---- R6 ------------------------------------------------------------------------------------
	c.Rule("R6", "state kept until removal has no early deleter: key assignments, client and channel bindings, genesis, evidence min height and init height are deleted only by DeleteConsumerChain's helpers, expired-address pruning, the validator-removed hook, and AssignConsumerKey's pre-launch replacement (guarded by IsConsumerActive); the channel is closed only inside DeleteConsumerChain", 14)
	allowedDeleters := map[string][]string{
		"ConsumerValidatorsKey":            {"pk.Keeper.DeleteValidatorConsumerPubKey"},
		"ValidatorsByConsumerAddrKey":      {"pk.Keeper.DeleteValidatorByConsumerAddr"},
		"ConsumerAddrsToPruneV2Key":        {"pk.Keeper.DeleteConsumerAddrsToPrune", "pk.Keeper.ConsumeConsumerAddrsToPrune"},
		"ConsumerIdToClientIdKey":          {"pk.Keeper.DeleteConsumerClientId"},
		"ClientIdToConsumerIdKey":          {"pk.Keeper.DeleteConsumerClientId", "pk.Keeper.SetConsumerClientId"},
		"ConsumerIdToChannelIdKey":         {"pk.Keeper.DeleteConsumerIdToChannelId"},
		"ChannelToConsumerIdKey":           {"pk.Keeper.DeleteChannelIdToConsumerId"},
		"ConsumerGenesisKey":               {"pk.Keeper.DeleteConsumerGenesis"},
		"EquivocationEvidenceMinHeightKey": {"pk.Keeper.DeleteEquivocationEvidenceMinHeight"},
		"InitChainHeightKey":               {"pk.Keeper.DeleteInitChainHeight"},
	}
	var names []string
	for n := range allowedDeleters {
		names = append(names, n)
	}
	sort.Strings(names)
	for _, sp := range names {
		allow := map[string]bool{}
		for _, a := range allowedDeleters[sp] {
			allow[q(a)] = true
		}
		var got []string
		ok := true
		for fn := range dels[sp] {
			got = append(got, shortName(fn))
			if !allow[fn] {
				ok = false
			}
		}
		sort.Strings(got)
		c.Check(ok && len(got) > 0, "kept-state/"+sp+"/direct-deleters", nil, fmt.Sprintf("functions deleting in this key space: %v", got))
	}
	c.OnlyCalledFrom("pk.Keeper.DeleteConsumerClientId", "pk.Keeper.DeleteConsumerChain")
	c.OnlyCalledFrom("pk.Keeper.DeleteConsumerIdToChannelId", "pk.Keeper.DeleteConsumerChain")
	c.OnlyCalledFrom("pk.Keeper.DeleteChannelIdToConsumerId", "pk.Keeper.DeleteConsumerChain")
	c.OnlyCalledFrom("pk.Keeper.DeleteConsumerGenesis", "pk.Keeper.DeleteConsumerChain")
	c.OnlyCalledFrom("pk.Keeper.DeleteEquivocationEvidenceMinHeight", "pk.Keeper.DeleteConsumerChain")
	c.OnlyCalledFrom("pk.Keeper.DeleteInitChainHeight", "pk.Keeper.DeleteConsumerChain")
	c.OnlyCalledFrom("pk.Keeper.DeleteKeyAssignments", "pk.Keeper.DeleteConsumerChain")
	c.OnlyCalledFrom("pk.Keeper.DeleteConsumerAddrsToPrune", "pk.Keeper.DeleteKeyAssignments")
	c.OnlyCalledFrom("pk.Keeper.ConsumeConsumerAddrsToPrune", "pk.Keeper.PruneKeyAssignments")
	c.OnlyCalledFrom("pk.Keeper.chanCloseInit", "pk.Keeper.DeleteConsumerChain")
	// SetConsumerClientId's rebinding delete is reachable only from launch
	c.OnlyCalledFrom("pk.Keeper.SetConsumerClientId", "pk.Keeper.CreateConsumerClient", "pk.Keeper.MakeConsumerGenesis")
}
