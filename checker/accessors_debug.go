package main

import (
	"fmt"
	"sort"
	"strings"
)

// debugAccessors prints the accessor census (development aid: `icsverif accessors`).
func debugAccessors(P *Prog) {
	c := &Ctx{P: P, floors: map[string]int{}, ruleDesc: map[string]string{}}
	for _, ks := range keyCtors(c, "pt") {
		fmt.Printf("pt-key %-45s %s\n", ks.Ctor.Name(), shapeString(ks.Shape))
	}
	for _, ks := range keyCtors(c, "ct") {
		fmt.Printf("ct-key %-45s %s\n", ks.Ctor.Name(), shapeString(ks.Shape))
	}
	for _, pkg := range []string{"pk", "ck"} {
		for _, f := range P.ModuleFuncs(pkg) {
			if f.Parent() != nil || fnPkgPath(f) != q(pkg) {
				continue
			}
			us := storeUses(c, f)
			if len(us) == 0 {
				continue
			}
			m := map[string]bool{}
			for _, u := range us {
				m[u.Op+":"+u.Space] = true
			}
			var l []string
			for k := range m {
				l = append(l, k)
			}
			sort.Strings(l)
			fmt.Printf("%s %-50s %s\n", pkg, f.Name(), strings.Join(l, " "))
		}
	}
}
