package main

import (
	"fmt"
	"go/token"

	"golang.org/x/tools/go/ssa"
)

func init() {
	register(&propDef{
		ID: "C01",
		Explanation: "Decides the queueing, ordering and pairing structure that every replication history relies on: pending packets are deleted only after every send succeeded and are sent in stored order; new packets are appended behind the stored ones; the set diffed against is the consumer's stored set and the set stored is the one diffed (epoch and launch); a packet is queued iff the diff is non-empty and carries exactly that diff; " +
			"on the consumer, received changes are accumulated as (stored pending, new packet) in that order, AccumulateChanges overwrites older entries with newer ones unconditionally and emits a totally ordered list; end-block applies the stored pending changes once, returns the result of the apply, and deletes them on every path; both channel ends are ORDERED (C17.R1); the accessors of the pending changes, cross-chain validators, provider channel, pending VSC packets and consumer validator set use their own key spaces.",
		NotDecided: []string{"that DiffValidators, AccumulateChanges and ApplyCCValidatorChanges compute the right sets (algorithmic over runtime collections; only their per-element structure is checked)", "IBC's ordered, exactly-once delivery (trusted)", "equality of provider-side and consumer-side sets at every block"},
		Run:        runC01,
	})
}

func runC01(c *Ctx) {
	// ---- R1 ------------------------------------------------------------------------------------
	c.Rule("R1", "send-all-then-delete: in SendVSCPacketsToChain pending packets are deleted only when no send failed, once, after the loop; the packets sent are the stored ones in order", 3)
	if f := c.Fn("pk.Keeper.SendVSCPacketsToChain"); f != nil {
		send := c.one(f, false, "ccv.SendIBCPacket")
		del := c.one(f, false, "pk.Keeper.DeletePendingVSCPackets")
		if send != nil && del != nil {
			c.NoPathAfterWhen(send, del, fk(f, "delete-only-after-all-sent"), F(AErrNil("SendIBCPacket ok", PIs(send.Value()))))
			c.Check(!inLoop(del) && PParam("consumerId")(arg(del, 1)), fk(f, "delete-once-after-loop"), del, "deleted once for this consumer after the loop")
			c.Check(PElemOf(PCall("pk.Keeper.GetPendingVSCPackets", -1, nil, nil, PParam("consumerId")))(callRecvOrArg(send)) && PParam("channelId")(arg(send, 2)), fk(f, "sends-stored-packets-in-order"), send, "sends the stored packets of this consumer, in slice order, on the given channel")
		}
	}

	// the shared send helper forwards its arguments in their roles and arms a time-based timeout
	if f := c.Fn("ccv.SendIBCPacket"); f != nil {
		if sp := c.one(f, false, "ccv.ChannelKeeper.SendPacket"); sp != nil {
			okRoles := PParam("sourcePortID")(arg(sp, 1)) && PParam("sourceChannelID")(arg(sp, 2)) && PParam("packetData")(arg(sp, 5))
			c.Check(okRoles, fk(f, "forwards-arguments"), sp, "SendPacket(ctx, sourcePortID, sourceChannelID, _, _, packetData); found "+describe(arg(sp, 1))+", "+describe(arg(sp, 2))+", "+describe(arg(sp, 5)))
			ts := arg(sp, 4)
			var period ssa.Value
			for _, prm := range f.Params {
				if prm.Name() == "timeoutPeriod" {
					period = prm
				}
			}
			usesBlockTime := false
			for _, bt := range Calls(f, false, "sdk.Context.BlockTime") {
				if dependsOn(ts, bt.Value(), 0, map[ssa.Value]bool{}) {
					usesBlockTime = true
				}
			}
			c.Check(period != nil && usesBlockTime && dependsOn(ts, period, 0, map[ssa.Value]bool{}) && isNilOrZeroHeight(arg(sp, 3)), fk(f, "timeout-is-blocktime-plus-period"), sp,
				"the timeout timestamp is computed from ctx.BlockTime() and timeoutPeriod, the timeout height is disabled; found "+describe(ts))
			for _, r := range Returns(f) {
				if mustPassBefore(r, sp) {
					c.Check(PIs(extractOf(sp, 1))(r.Results[0]), fk(f, "returns-send-error"), r, "after SendPacket the helper returns SendPacket's error")
				}
			}
		}
	}
	if f := c.Fn("pk.Keeper.SendVSCPacketsToChain"); f != nil {
		if send := c.one(f, false, "ccv.SendIBCPacket"); send != nil {
			port, _ := c.StringConst("ccv.ProviderPortID")
			got, isC := constString(arg(send, 3))
			c.Check(isC && got == port && PCall("pk.Keeper.GetCCVTimeoutPeriod", -1, nil)(arg(send, 5)), fk(f, "port-and-timeout"), send, "sent from the provider port with the CCV timeout period parameter; found "+describe(arg(send, 3))+", "+describe(arg(send, 5)))
			checkParamGetters(c, "pk", "GetCCVTimeoutPeriod", "GetBlocksPerEpoch")
		}
	}

	if f := c.Fn("pk.Keeper.InitGenesis"); f != nil {
		cs := PElemOf(PField(PParam("genState"), "ConsumerStates"))
		c.ArgRoles(f, "pk.Keeper.AppendPendingVSCPackets", "genesis-pending-packets", "AppendPendingVSCPackets(cs.ChainId, cs.PendingValsetChanges...)", PField(cs, "ChainId"), PField(cs, "PendingValsetChanges"))
	}
	if f := c.Fn("pk.Keeper.ExportGenesis"); f != nil {
		if g := c.one(f, false, "pk.Keeper.GetPendingVSCPackets"); g != nil {
			c.Check(elementOfCall(arg(g, 1), "pk.Keeper.GetAllConsumersWithIBCClients"), fk(f, "exports-pending-packets"), g, "exports the pending packets of the consumer being exported; found "+describe(arg(g, 1)))
		}
	}

	// the epoch gate: at every epoch boundary the updates are queued and then sent; never in between
	if f := c.Fn("pk.Keeper.EndBlockVSU"); f != nil {
		boundary := AEq("BlocksUntilNextEpoch() == 0", PCall("pk.Keeper.BlocksUntilNextEpoch", -1, nil), PConstInt(0))
		qv := c.one(f, false, "pk.Keeper.QueueVSCPackets")
		sv := c.one(f, false, "pk.Keeper.SendVSCPackets")
		if qv != nil && sv != nil {
			c.GuardedBy(qv, fk(f, "queue-only-at-epoch-boundary"), boundary)
			c.Check(mustPassBefore(sv, qv), fk(f, "queue-before-send"), sv, "SendVSCPackets runs after QueueVSCPackets")
			for _, r := range successReturns(f) {
				c.MustPassWhen(r, []ssa.Instruction{qv}, fk(f, "boundary-queues"), T(boundary))
				c.MustPassWhen(r, []ssa.Instruction{sv}, fk(f, "boundary-sends"), T(boundary))
			}
		}
	}
	if f := c.Fn("pk.Keeper.BlocksUntilNextEpoch"); f != nil {
		rem := PBin(token.REM, PCall("sdk.Context.BlockHeight", -1, nil), PCall("pk.Keeper.GetBlocksPerEpoch", -1, nil))
		atStart := AEq("BlockHeight % BlocksPerEpoch == 0", rem, PConstInt(0))
		n0 := 0
		for _, r := range Returns(f) {
			if k, isC := constInt(r.Results[0]); isC && k == 0 {
				n0++
				c.GuardedBy(r, fk(f, "zero-only-at-epoch-start"), atStart)
			} else {
				c.UnreachableWhen(r, fk(f, "epoch-start-returns-zero"), T(atStart))
			}
		}
		c.Check(n0 == 1, fk(f, "zero-only-at-epoch-start", "census"), f, "one return of the constant 0")
	}

	// ---- R2 ------------------------------------------------------------------------------------
	c.Rule("R2", "FIFO queue: AppendPendingVSCPackets stores append(stored packets of the consumer, new packets...) under the same consumer", 2)
	if f := c.Fn("pk.Keeper.AppendPendingVSCPackets"); f != nil {
		n := 0
		for _, a := range Calls(f, false, "builtin.append") {
			as := callArgs(a)
			if PCall("pk.Keeper.GetPendingVSCPackets", -1, nil, nil, PParam("consumerId"))(as[0]) {
				n++
				c.Check(PParam("newPackets")(as[1]), fk(f, "old-first-then-new"), a, "append(stored, newPackets...): older packets stay in front")
			}
		}
		c.Check(n == 1, fk(f, "one-append"), f, "the stored list is extended by one append")
		if st := c.one(f, false, "store.KVStore.Set"); st != nil {
			ke := &keyEval{p: c.P}
			c.Check(shapeString(ke.evalBytes(arg(st, 0), nil)) == "Const(PendingVSCsKey)·Raw(param:consumerId)", fk(f, "same-consumer-queue"), st, "written back under the same consumer's key")
		}
	}

	// ---- R3 ------------------------------------------------------------------------------------
	c.Rule("R3", "diff base and stored set coincide: QueueVSCPackets diffs against GetConsumerValSet(same id); ComputeConsumerNextValSet stores the very set it diffs, before returning; LaunchConsumer diffs against the empty set", 5)
	if f := c.Fn("pk.Keeper.QueueVSCPackets"); f != nil {
		if cn := c.one(f, true, "pk.Keeper.ComputeConsumerNextValSet"); cn != nil {
			id := arg(cn, 3)
			c.Check(PElemOf(PCall("pk.Keeper.GetAllConsumersWithIBCClients", -1, nil))(id), fk(f, "per-consumer"), cn, "computed for the loop's consumer")
			c.Check(PCall("pk.Keeper.GetConsumerValSet", 0, nil, nil, PIs(id))(arg(cn, 4)), fk(f, "diff-base-is-stored-set"), cn, "the current set passed is GetConsumerValSet(ctx, the same consumer); found "+describe(arg(cn, 4)))
		}
	}
	if f := c.Fn("pk.Keeper.ComputeConsumerNextValSet"); f != nil {
		st := c.one(f, false, "pk.Keeper.SetConsumerValSet")
		df := c.one(f, false, "pk.DiffValidators")
		nv := c.one(f, false, "pk.Keeper.ComputeNextValidators")
		if st != nil && df != nil && nv != nil {
			next := PIs(extractOf(nv, 0))
			c.Check(PParam("consumerId")(arg(st, 1)) && next(arg(st, 2)), fk(f, "stores-computed-set"), st, "the stored set is the computed next set of this consumer")
			c.Check(PParam("currentConsumerValSet")(arg(df, 0)) && next(arg(df, 1)), fk(f, "diffs-stored-set"), df, "DiffValidators(current parameter, the very set that is stored)")
			for _, r := range successReturns(f) {
				c.Check(mustPassBefore(r, st) && PIs(df.Value())(r.Results[0]), fk(f, "returns-diff-after-store"), r, "returns the diff, after the set was stored")
			}
		}
	}

	// ---- R4 ------------------------------------------------------------------------------------
	c.Rule("R4", "a packet is queued iff the diff is non-empty and carries that diff", 3)
	if f := c.Fn("pk.Keeper.QueueVSCPackets"); f != nil {
		cn := c.one(f, true, "pk.Keeper.ComputeConsumerNextValSet")
		app := c.one(f, true, "pk.Keeper.AppendPendingVSCPackets")
		nw := c.one(f, true, "ccv.NewValidatorSetChangePacketData")
		if cn != nil && app != nil && nw != nil {
			diff := PIs(extractOf(cn, 0))
			nonEmpty := Atom{"len(valUpdates) != 0", cmpAtom(func(op token.Token, x, y ssa.Value) (bool, bool) {
				isLen := func(v ssa.Value) bool {
					cl, ok := strip(v).(*ssa.Call)
					return ok && isCallTo(cl, "builtin.len") && diff(cl.Call.Args[0])
				}
				if (op == token.EQL || op == token.NEQ) && ((isLen(x) && PConstInt(0)(y)) || (isLen(y) && PConstInt(0)(x))) {
					return true, op == token.NEQ
				}
				return false, false
			})}
			c.GuardedBy(app, fk(f, "queue-only-nonempty"), nonEmpty)
			c.Check(diff(arg(nw, 0)), fk(f, "packet-carries-diff"), nw, "the packet's ValidatorUpdates are the computed diff")
			// non-empty diff is always queued before the next consumer
			rq, _ := reachUnder(f, T(nonEmpty))
			rq.CutInstrs[app] = true
			after := rq.After(cn)
			lost := after[cn.(ssa.Instruction)]
			for _, r := range successReturns(f) {
				if after[r] {
					lost = true
				}
			}
			c.Check(!lost, fk(f, "nonempty-diff-is-queued"), app, "a non-empty diff always reaches AppendPendingVSCPackets before the next consumer")
		}
	}

	// ---- R5 ------------------------------------------------------------------------------------
	c.Rule("R5", "consumer accumulation: OnRecvVSCPacket accumulates (stored pending changes, packet updates) in that order and stores the result; AccumulateChanges writes current then new entries into the map unconditionally (later wins, nothing dropped) and returns them sorted by a total order", 8)
	if f := c.Fn("ck.Keeper.OnRecvVSCPacket"); f != nil {
		acc := c.one(f, false, "ccv.AccumulateChanges")
		set := c.one(f, false, "ck.Keeper.SetPendingChanges")
		if acc != nil && set != nil {
			pending := PCall("ck.Keeper.GetPendingChanges", 0, nil)
			ok0 := allRoots(arg(acc, 0), PField(pending, "ValidatorUpdates"), isEmptySliceLit)
			c.Check(ok0, fk(f, "first-arg-stored-pending"), acc, "first argument = stored pending ValidatorUpdates (or empty); found "+describe(arg(acc, 0)))
			c.Check(PField(PParam("newChanges"), "ValidatorUpdates")(arg(acc, 1)), fk(f, "second-arg-new-packet"), acc, "second argument = the received packet's ValidatorUpdates")
			st := structLitFields(arg(set, 1))
			c.Check(st != nil && PIs(acc.Value())(st["ValidatorUpdates"]), fk(f, "stores-accumulated"), set, "the accumulated list is stored as the new pending changes")
			for _, r := range successReturns(f) {
				c.Check(mustPassBefore(r, set), fk(f, "always-stored"), r, "every accepted packet updates the pending changes")
			}
		}
	}
	if f := c.Fn("ccv.AccumulateChanges"); f != nil {
		var ups []*ssa.MapUpdate
		for _, in := range allInstrs(f) {
			if mu, ok := in.(*ssa.MapUpdate); ok {
				ups = append(ups, mu)
			}
		}
		c.Check(len(ups) == 2, fk(f, "two-writes"), f, "one map write per input list")
		c.Check(len(Calls(f, false, "builtin.delete")) == 0, fk(f, "nothing-dropped"), f, "no entry is ever deleted from the accumulator")
		if len(ups) == 2 {
			src := func(mu *ssa.MapUpdate) string {
				for _, r := range elementSource(mu.Value) {
					if p, ok := r.(*ssa.Parameter); ok {
						return p.Name()
					}
				}
				return "?"
			}
			var cur, nw *ssa.MapUpdate
			for _, mu := range ups {
				switch src(mu) {
				case "currentChanges":
					cur = mu
				case "newChanges":
					nw = mu
				}
			}
			c.Check(cur != nil && nw != nil, fk(f, "sources"), f, "one write loop over currentChanges and one over newChanges")
			if cur != nil && nw != nil {
				c.Check(NewReach(f).After(cur)[nw] && !NewReach(f).After(nw)[cur], fk(f, "new-after-current"), nw, "the loop over newChanges runs after the loop over currentChanges (newer values overwrite older ones)")
				for _, mu := range []*ssa.MapUpdate{cur, nw} {
					// unconditional: the only branch between two consecutive writes is the loop condition
					c.Check(unconditionalInLoop(mu), fk(f, "unconditional-write", src(mu)), mu, "every element of the list is written (no condition inside the loop body)")
					k, _ := callOf(mu.Key)
					c.Check(k != nil && sameVal(fieldBase(callRecv(k)), fieldBase(mu.Value)) || keyOfSameElement(mu), fk(f, "keyed-by-own-pubkey", src(mu)), mu, "keyed by the element's own PubKey string")
				}
			}
		}
		if s := c.one(f, false, "sort.Slice", "sort.SliceStable", "sort.Sort", "sort.Stable"); s != nil {
			for _, r := range Returns(f) {
				c.Check(mustPassBefore(r, s) && sharesRoots(sliceOfIface(arg(s, 0)), r.Results[0]), fk(f, "sorted-output"), r, "the returned list is the sorted one")
			}
		}
	}

	// ---- R6 ------------------------------------------------------------------------------------
	c.Rule("R8", "accessor agreement for the replication state (consumer pending changes, cross-chain validators, provider channel; provider pending packets and consumer validator set)", 10)
	checkAccessorAgreement(c, "ck", "PendingChangesKey", "CrossChainValidatorKey", "ProviderChannelIDKey", "InitialValSetKey", "InitGenesisHeightKey", "PreCCVKey", "PrevStandaloneChainKey")
	checkAccessorAgreement(c, "pk", "PendingVSCsKey", "ConsumerValidatorKey")
	checkSetterValues(c, "ck", []string{"PendingChanges", "CCValidator", "ProviderChannel"})
	checkCollectors(c, "ck", "GetAllCCValidator")

	c.Rule("R6", "apply once: consumer EndBlock applies GetPendingChanges().ValidatorUpdates, returns exactly the apply's result, and DeletePendingChanges lies on every path from the apply to the return; reward distribution and packet sending precede it", 5)
	if f := c.Fn("consumer.AppModule.EndBlock"); f != nil {
		ap := c.one(f, false, "ck.Keeper.ApplyCCValidatorChanges")
		dl := c.one(f, false, "ck.Keeper.DeletePendingChanges")
		if ap != nil && dl != nil {
			c.Check(PField(PCall("ck.Keeper.GetPendingChanges", 0, nil), "ValidatorUpdates")(arg(ap, 1)), fk(f, "applies-stored-pending"), ap, "applies the stored pending ValidatorUpdates; found "+describe(arg(ap, 1)))
			rq := NewReach(f)
			rq.CutInstrs[dl] = true
			after := rq.After(ap)
			for _, r := range Returns(f) {
				if NewReach(f).After(ap)[r] {
					c.Check(!after[r], fk(f, "pending-deleted-after-apply"), r, "after applying, the pending changes are deleted before returning")
					c.Check(PIs(ap.Value())(r.Results[0]), fk(f, "returns-applied-updates"), r, "the updates handed to consensus are exactly the result of the apply; found "+describe(r.Results[0]))
				}
			}
			c.Check(!inLoop(ap), fk(f, "applied-once"), ap, "applied once per block")
			found := ABool("pending changes exist", PCall("ck.Keeper.GetPendingChanges", 1, nil))
			preCCV := ABool("IsPreCCV", PCall("ck.Keeper.IsPreCCV", -1, nil))
			for _, r := range Returns(f) {
				c.MustPassWhen(r, []ssa.Instruction{ap}, fk(f, "pending-always-applied"), F(preCCV), T(found))
			}
			for _, pre := range []string{"ck.Keeper.EndBlockRD", "ck.Keeper.SendPackets"} {
				if p := c.one(f, false, pre); p != nil {
					c.Check(mustPassBefore(ap, p), fk(f, "order", shortName(q(pre))), p, shortName(q(pre))+" runs before the validator changes are applied")
				}
			}
		}
	}

	// ---- R7 ------------------------------------------------------------------------------------
	c.Rule("R7", "launch-time set: the genesis handed to the consumer carries ComputeConsumerNextValSet(..., empty current set) (see C10.R5), i.e. the same pipeline as every later update; the consumer applies exactly state.Provider.InitialValSet at genesis (or, for a changeover chain, stores it and applies it once at the changeover) and hands it to the consensus engine", 6)
	if f := c.Fn("pk.Keeper.LaunchConsumer"); f != nil {
		mk := c.one(f, false, "pk.Keeper.MakeConsumerGenesis")
		if mk != nil {
			c.Check(PCall("pk.Keeper.ComputeConsumerNextValSet", 0, nil, nil, PParam("bondedValidators"), PParam("activeValidators"), PParam("consumerId"), nil)(arg(mk, 2)), fk(f, "genesis-set-from-same-pipeline"), mk, "initial updates = ComputeConsumerNextValSet(bonded, active, consumerId, empty)")
		}
	}
	// consumer side: the genesis set is applied to the cross-chain validator table and is what the
	// consensus engine receives; a changeover chain stores it and applies it once, at the changeover
	initial := PField(PField(PParam("state"), "Provider"), "InitialValSet")
	if f := c.Fn("ck.Keeper.InitGenesis"); f != nil {
		preCCV := ABool("state.PreCCV", PField(PParam("state"), "PreCCV"))
		enabled := ABool("state.Params.Enabled", PField(PField(PParam("state"), "Params"), "Enabled"))
		ap := c.one(f, false, "ck.Keeper.ApplyCCValidatorChanges")
		st := c.one(f, false, "ck.Keeper.SetInitialValSet")
		if ap != nil && st != nil {
			c.Check(initial(arg(ap, 1)) && initial(arg(st, 1)), fk(f, "genesis-set-applied"), ap, "ApplyCCValidatorChanges and SetInitialValSet receive state.Provider.InitialValSet; found "+describe(arg(ap, 1))+", "+describe(arg(st, 1)))
			n := 0
			for _, r := range reachableReturns(f, F(preCCV), T(enabled)) {
				n++
				c.Check(mustPassBefore(r, ap) && initial(r.Results[0]), fk(f, "genesis-set-returned"), r, "a regular (enabled, not PreCCV) start applies the genesis set and returns exactly it; found "+describe(r.Results[0]))
			}
			c.Check(n > 0, fk(f, "genesis-set-returned", "census"), f, fmt.Sprintf("%d returns of a regular start analysed", n))
			for _, r := range reachableReturns(f, T(preCCV)) {
				c.MustPassWhen(r, []ssa.Instruction{st}, fk(f, "changeover-set-stored"), T(preCCV))
			}
			c.UnreachableWhen(ap, fk(f, "changeover-not-applied-at-genesis"), T(preCCV))
		}
	}
	if f := c.Fn("ck.Keeper.ChangeoverToConsumer"); f != nil {
		if ap := c.one(f, false, "ck.Keeper.ApplyCCValidatorChanges"); ap != nil {
			c.Check(PCall("ck.Keeper.GetInitialValSet", -1, nil)(arg(ap, 1)), fk(f, "applies-stored-genesis-set"), ap, "the changeover applies GetInitialValSet(); found "+describe(arg(ap, 1)))
			if del := c.one(f, false, "ck.Keeper.DeletePreCCV"); del != nil {
				for _, r := range Returns(f) {
					c.Check(mustPassBefore(r, del) && mustPassBefore(r, ap), fk(f, "once"), r, "every return passes the apply and DeletePreCCV (the changeover runs once)")
				}
			}
		}
	}
	if f := c.Fn("consumer.AppModule.EndBlock"); f != nil {
		if ch := c.one(f, false, "ck.Keeper.ChangeoverToConsumer"); ch != nil {
			pre := ABool("IsPreCCV()", PCall("ck.Keeper.IsPreCCV", -1, nil))
			c.GuardedBy(ch, fk(f, "changeover-only-preccv"), pre)
			for _, r := range reachableReturns(f, T(pre)) {
				c.Check(PIs(ch.Value())(r.Results[0]), fk(f, "changeover-result-returned"), r, "while PreCCV, EndBlock returns the changeover's updates; found "+describe(r.Results[0]))
			}
		}
	}
}

// loopHeadOf returns an instruction of the loop containing in that every iteration passes (the
// instruction itself).
func loopHeadOf(in ssa.Instruction) ssa.Instruction { return in }

// unconditionalInLoop: within one iteration, the instruction is executed on every path: from the
// instruction, re-reaching it requires passing exactly one branch (the loop condition), and no
// path from the loop condition's true edge back to the loop condition avoids it.
func unconditionalInLoop(in ssa.Instruction) bool {
	fn := in.Parent()
	if !inLoop(in) {
		return false
	}
	// find branch instructions from which `in` is reachable AND which are reachable from `in`
	var conds []*ssa.If
	for _, b := range fn.Blocks {
		iff, ok := b.Instrs[len(b.Instrs)-1].(*ssa.If)
		if !ok {
			continue
		}
		if NewReach(fn).After(in)[iff] && NewReach(fn).After(iff)[in] {
			conds = append(conds, iff)
		}
	}
	if len(conds) != 1 {
		return false // additional branching inside the loop body
	}
	// from the loop condition, every path that returns to the loop condition passes `in`
	rq := NewReach(fn)
	rq.CutInstrs[in] = true
	return !rq.After(conds[0])[conds[0]]
}

// keyOfSameElement: the map key is computed from the same slice element as the stored value
// (same slice, same index value).
func keyOfSameElement(mu *ssa.MapUpdate) bool {
	k, _ := callOf(mu.Key)
	if k == nil {
		return false
	}
	var kia *ssa.IndexAddr
	r := callRecv(k)
	for i := 0; i < 4 && r != nil; i++ {
		switch x := r.(type) {
		case *ssa.FieldAddr:
			r = x.X
			continue
		case *ssa.IndexAddr:
			kia = x
		case *ssa.UnOp:
			r = x.X
			continue
		case *ssa.Field:
			r = x.X
			continue
		}
		break
	}
	var via *ssa.IndexAddr
	if u, ok := mu.Value.(*ssa.UnOp); ok {
		via, _ = u.X.(*ssa.IndexAddr)
	}
	return kia != nil && via != nil && kia.X == via.X && kia.Index == via.Index
}

// isNilOrZeroHeight: the zero clienttypes.Height literal.
func isNilOrZeroHeight(v ssa.Value) bool {
	v = strip(v)
	if u, ok := v.(*ssa.UnOp); ok {
		if al, ok := u.X.(*ssa.Alloc); ok {
			// a composite literal with no field stores
			for _, r := range *al.Referrers() {
				if _, isFA := r.(*ssa.FieldAddr); isFA {
					return false
				}
				if st, isSt := r.(*ssa.Store); isSt && st.Addr == ssa.Value(al) {
					if _, isC := st.Val.(*ssa.Const); !isC {
						return false
					}
				}
			}
			return true
		}
	}
	if cst, ok := v.(*ssa.Const); ok {
		return cst.Value == nil
	}
	return false
}
