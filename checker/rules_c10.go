package main

import (
	"fmt"
	"go/token"

	"golang.org/x/tools/go/ssa"
)

func init() {
	register(&propDef{
		ID: "C10",
		Explanation: "Decides the phase machine structurally: for every run-time SetConsumerPhase(id, P) site the set of phases the consumer can be in (from dominating guards, lifted through callers, closed by three id-source axioms whose side-conditions are themselves checked) is within pred(P); " +
			"the id counter has one writer storing read+1 and returning the pre-increment value; the spawn queue contains a consumer only while it is initialized (append only after InitializeConsumer returned true; every exit from INITIALIZED removes or consumes the queue entry); " +
			"the three time queues are consumed with consistent accessor bundles and a positive constant limit whose slot arithmetic uses the result accumulator; LaunchConsumer succeeds only with a non-empty initial set containing an active validator and only after genesis, client and phase were written in order; " +
			"the launch-failure fallback clears the spawn time and sets REGISTERED on the outer context and continues with the next consumer; chain id and initialization parameters are writable only before launch.",
		NotDecided: []string{"that every due consumer is eventually processed when more than 200 are due (loop arithmetic over runtime queue contents)", "launch in the FIRST block at or after the spawn time (depends on block-time order)", "contents of the genesis beyond the provenance of its fields"},
		Run:        runC10,
	})
}

var predPhases = map[int64]phaseSet{
	1: {0: true, 1: true, 2: true}, // REGISTERED <- fresh, INITIALIZED (self-loop allowed)
	2: {1: true, 2: true},          // INITIALIZED <- REGISTERED
	3: {2: true},                   // LAUNCHED <- INITIALIZED
	4: {3: true, 4: true},          // STOPPED <- LAUNCHED (repeated timeouts re-stop a stopped consumer)
	5: {4: true},                   // DELETED <- STOPPED
}

func runC10(c *Ctx) {
	ts := newTypestate(c)
	phaseName := map[int64]string{0: "NONE", 1: "REGISTERED", 2: "INITIALIZED", 3: "LAUNCHED", 4: "STOPPED", 5: "DELETED"}

	// ---- R1 ------------------------------------------------------------------------------------
	c.Rule("R1", "phase transitions: at every run-time SetConsumerPhase(id, P) the admitted predecessor set is within pred(P): REGISTERED<-{fresh,INITIALIZED}, INITIALIZED<-{REGISTERED}, LAUNCHED<-{INITIALIZED}, STOPPED<-{LAUNCHED}, DELETED<-{STOPPED} (self-loops allowed)", 7)
	sites, oob := c.Callers("pk.Keeper.SetConsumerPhase")
	type siteInfo struct {
		site ssa.CallInstruction
		to   int64
		pre  phaseSet
	}
	var infos []siteInfo
	for _, s := range sites {
		cl, ok := s.(ssa.CallInstruction)
		if !ok {
			c.Undecided(fk(topFn(s.Parent()), "phase-write"), s, "SetConsumerPhase used as a function value")
			continue
		}
		to, isConst := constInt(arg(cl, 2))
		key := fk(topFn(s.Parent()), "SetConsumerPhase", phaseName[to])
		if !isConst {
			c.Undecided(key, s, "non-constant target phase "+describe(arg(cl, 2)))
			continue
		}
		pre, why, ok := ts.admitted(s, arg(cl, 1), 0)
		if !ok {
			c.Undecided(key, s, "cannot bound the predecessor phases: "+why)
			continue
		}
		okT := true
		for p := range pre {
			if !predPhases[to][p] {
				okT = false
			}
		}
		c.Check(okT, key, s, fmt.Sprintf("-> %s admitted from %s; %s", phaseName[to], pre, why))
		infos = append(infos, siteInfo{cl, to, pre})
	}
	c.Notes = append(c.Notes, fmt.Sprintf("%d out-of-band SetConsumerPhase sites (genesis/migrations) are exempt", len(oob)))

	// ---- R2 ------------------------------------------------------------------------------------
	c.Rule("R2", "axiom side-conditions: the spawn queue holds a consumer only while INITIALIZED (append only via PrepareConsumerForLaunch under InitializeConsumer==true or as the re-append callback; every transition out of INITIALIZED removes the entry first or takes its id from the consumed queue); channel bindings exist only between launch and deletion (see C17.R5)", 6)
	c.OnlyCalledFrom("pk.Keeper.AppendConsumerToBeLaunched", "pk.Keeper.PrepareConsumerForLaunch", "pk.Keeper.BeginBlockLaunchConsumers")
	for _, s := range mustSites(c, "pk.Keeper.PrepareConsumerForLaunch") {
		f := topFn(s.Parent())
		cl := s.(ssa.CallInstruction)
		initOK := ABool("InitializeConsumer(id) == true", PCall("pk.Keeper.InitializeConsumer", 1, nil, nil, PIs(arg(cl, 1))))
		c.GuardedBy(s, fk(f, "schedule-only-initialized"), initOK)
		c.Check(PCall("pk.Keeper.InitializeConsumer", 0, nil, nil, PIs(arg(cl, 1)))(arg(cl, 3)), fk(f, "schedule-at-stored-spawn-time"), s, "scheduled at the spawn time returned by InitializeConsumer; found "+describe(arg(cl, 3)))
	}
	if f := c.Fn("pk.Keeper.BeginBlockLaunchConsumers"); f != nil {
		// the function value may only be the re-append callback of ConsumeIdsFromTimeQueue
		for _, in := range c.P.index().refs[q("pk.Keeper.AppendConsumerToBeLaunched")] {
			ok := false
			if mc, isMC := in.(*ssa.MakeClosure); isMC {
				for _, r := range *mc.Referrers() {
					if cl, isCall := r.(ssa.CallInstruction); isCall && isCallTo(cl, "pk.Keeper.ConsumeIdsFromTimeQueue") && arg(cl, 4) == ssa.Value(mc) {
						ok = true
					}
				}
			}
			c.Check(ok, fk(topFn(in.Parent()), "append-callback"), in, "AppendConsumerToBeLaunched as a value is only the re-append callback of ConsumeIdsFromTimeQueue")
		}
	}
	if f := c.Fn("pk.Keeper.InitializeConsumer"); f != nil {
		// returns true only after setting INITIALIZED for the same id, with a non-zero spawn time
		set := c.one(f, false, "pk.Keeper.SetConsumerPhase")
		if set != nil {
			for _, r := range Returns(f) {
				b, isC := constBool(r.Results[1])
				if isC && !b {
					continue
				}
				c.Check(mustPassBefore(r, set) && PParam("consumerId")(arg(set, 1)), fk(f, "true-implies-initialized"), r, "returning true implies SetConsumerPhase(consumerId, INITIALIZED) was executed")
				zero := ABool("spawnTime.IsZero()", PCall("time.Time.IsZero", -1, PField(PCall("pk.Keeper.GetConsumerInitializationParameters", 0, nil, nil, PParam("consumerId")), "SpawnTime")))
				c.UnreachableAfterHold(r, fk(f, "true-implies-nonzero-spawn-time"), zero)
				c.Check(PField(PCall("pk.Keeper.GetConsumerInitializationParameters", 0, nil, nil, PParam("consumerId")), "SpawnTime")(r.Results[0]), fk(f, "returns-stored-spawn-time"), r, "returns the stored spawn time")
			}
		}
	}
	for _, si := range infos {
		if si.to == 2 || !si.pre[2] {
			continue
		}
		f := topFn(si.site.Parent())
		key := fk(f, "leaves-INITIALIZED", phaseName[si.to])
		id := arg(si.site, 1)
		// (a) id taken from the consumed spawn queue
		fromQueue := false
		for _, ax := range ts.axioms()[1:2] {
			fromQueue = ax.pat(id)
		}
		if !fromQueue {
			if prm, ok := strip(id).(*ssa.Parameter); ok && prm.Parent() == si.site.Parent() {
				// LaunchConsumer: justified at its callers
				all := true
				cs, _ := c.Callers(ssaFuncName(si.site.Parent()))
				for _, s := range cs {
					cl, isCl := s.(ssa.CallInstruction)
					if !isCl {
						all = false
						continue
					}
					idx := 0
					for i, x := range si.site.Parent().Params {
						if x == prm {
							idx = i
						}
					}
					if !ts.axioms()[1].pat(cl.Common().Args[idx]) {
						all = false
					}
				}
				fromQueue = all && len(cs) > 0
			}
		}
		if fromQueue {
			c.Check(true, key, si.site, "the id comes from the consumed spawn queue (entry already deleted by ConsumeIdsFromTimeQueue)")
			continue
		}
		// (b) preceded by RemoveConsumerToBeLaunched(id, …) on every path
		rem := Calls(si.site.Parent(), false, "pk.Keeper.RemoveConsumerToBeLaunched")
		var via []ssa.Instruction
		for _, r := range rem {
			if sameVal(arg(r, 1), id) {
				via = append(via, r)
			}
		}
		c.Check(len(via) > 0 && mustPassBefore(si.site, via...), key, si.site, "every path to this transition out of INITIALIZED passes RemoveConsumerToBeLaunched(id, …)")
	}

	// ---- R3 ------------------------------------------------------------------------------------
	c.Rule("R3", "consumer id counter: only FetchAndIncrementConsumerId writes it at run time; it stores read+1 and returns the decimal of the pre-increment value; ids are used by CreateConsumer only", 4)
	c.OnlyCalledFrom("pk.Keeper.setConsumerId", "pk.Keeper.FetchAndIncrementConsumerId")
	c.OnlyCalledFrom("pk.Keeper.FetchAndIncrementConsumerId", "pk.msgServer.CreateConsumer")
	if f := c.Fn("pk.Keeper.FetchAndIncrementConsumerId"); f != nil {
		read := PCall("pk.Keeper.GetConsumerId", 0, nil)
		if s := c.one(f, false, "pk.Keeper.setConsumerId"); s != nil {
			c.Check(isAddConst(arg(s, 1), 1, read), fk(f, "stores-read+1"), s, "stores GetConsumerId()+1; found "+describe(arg(s, 1)))
			for _, r := range Returns(f) {
				c.Check(mustPassBefore(r, s), fk(f, "always-increments"), r, "every return passes the increment")
				c.Check(PCall("strconv.FormatUint", -1, nil, read, PConstInt(10))(r.Results[0]), fk(f, "returns-pre-increment"), r, "returns the decimal string of the value read before the increment; found "+describe(r.Results[0]))
			}
		}
	}

	// ---- R4 ------------------------------------------------------------------------------------
	c.Rule("R4", "time-queue bundles: each ConsumeIdsFromTimeQueue call passes prefix/get/delete-all/append of the same queue and a positive constant limit, and iterates its result; inside, the slot computation is limit - len(result accumulator), entries later than the block time end the scan, and processed timestamps are deleted", 12)
	checkQueueBundles(c, "")
	c.RunsEveryBlock("provider.AppModule.BeginBlock", "pk.Keeper.BeginBlockLaunchConsumers", "launch-driver-runs-every-block")
	c.KeyShapeIs("pt.SpawnTimeToConsumerIdsKey", "Const(SpawnTimeToConsumerIdsKeyName)·Time(param:spawnTime)", "the launch queue is scanned in time order and the scan stops at the first future entry")
	// accessors agree on the key constructor of their queue
	for _, fam := range [][]string{
		{"pt.SpawnTimeToConsumerIdsKey", "pk.Keeper.GetConsumersToBeLaunched", "pk.Keeper.AppendConsumerToBeLaunched", "pk.Keeper.RemoveConsumerToBeLaunched", "pk.Keeper.DeleteAllConsumersToBeLaunched"},
		{"pt.RemovalTimeToConsumerIdsKey", "pk.Keeper.GetConsumersToBeRemoved", "pk.Keeper.AppendConsumerToBeRemoved", "pk.Keeper.RemoveConsumerToBeRemoved", "pk.Keeper.DeleteAllConsumersToBeRemoved"},
		{"pt.InfractionScheduledTimeToConsumerIdsKey", "pk.Keeper.GetFromInfractionUpdateSchedule", "pk.Keeper.AddToInfractionUpdateSchedule", "pk.Keeper.RemoveFromInfractionUpdateSchedule", "pk.Keeper.DeleteAllConsumersFromInfractionUpdateSchedule"},
	} {
		for _, acc := range fam[1:] {
			f := c.Fn(acc)
			if f == nil {
				continue
			}
			n, ok := 0, true
			for _, in := range allInstrs(f) {
				for _, op := range in.Operands(nil) {
					if fv, isF := (*op).(*ssa.Function); isF && fnPkgPath(fv) == q("pt") && hasSuffix(ssaFuncName(fv), "ToConsumerIdsKey") {
						n++
						if ssaFuncName(fv) != q(fam[0]) {
							ok = false
						}
					}
				}
			}
			c.Check(ok && n > 0, fk(f, "queue-key"), f, "uses the key constructor "+shortName(q(fam[0]))+" of its own queue")
		}
	}
	if f := c.Fn("pk.Keeper.ConsumeIdsFromTimeQueue"); f != nil {
		// slot arithmetic: limit - len(result) where result is the returned accumulator
		var resAcc ssa.Value
		for _, r := range successReturns(f) {
			resAcc = r.Results[0]
		}
		nSub := 0
		for _, in := range allInstrs(f) {
			b, ok := in.(*ssa.BinOp)
			if !ok || b.Op != token.SUB {
				continue
			}
			if !isParam(b.X, "limit") {
				continue
			}
			nSub++
			okLen := false
			if cl, isCl := strip(b.Y).(*ssa.Call); isCl && isCallTo(cl, "builtin.len") {
				okLen = sharesRoots(cl.Call.Args[0], resAcc)
			}
			c.Check(okLen, fk(f, "slots=limit-len(result)"), in, "available slots = limit - len(result accumulator); found limit - "+describe(b.Y))
			c.Check(inLoop(in), fk(f, "slots-recomputed-per-timestamp"), in, "the available slots are recomputed inside the scan loop (a value computed once before the loop never shrinks)")
		}
		c.Check(nSub == 1, fk(f, "slot-computation"), f, "one slot computation")
		future := ABool("ts.After(ctx.BlockTime())", PCall("time.Time.After", -1, PCall("pt.ParseTime", 0, nil), PCall("sdk.Context.BlockTime", -1, nil)))
		for _, cl := range AllCalls(f, false) {
			if cc := cl.Common(); !cc.IsInvoke() && cc.StaticCallee() == nil {
				if p, isP := cc.Value.(*ssa.Parameter); isP && p.Name() == "getIds" {
					c.UnreachableAfterHold(cl, fk(f, "not-before-due"), future)
					c.Check(PCall("pt.ParseTime", 0, nil)(cc.Args[1]), fk(f, "reads-parsed-time"), cl, "ids are read for the timestamp parsed from the iterated key")
				}
				if p, isP := cc.Value.(*ssa.Parameter); isP && p.Name() == "deleteAllIds" {
					c.Check(inLoop(cl), fk(f, "deletes-processed"), cl, "every processed timestamp is deleted")
				}
			}
		}
		if it := c.one(f, false, "store.KVStorePrefixIterator"); it != nil {
			c.Check(isParamByteSlice(arg(it, 1), "timeQueueKeyPrefix"), fk(f, "iterates-queue-prefix"), it, "iterates the whole queue under the given prefix byte")
		}
	}

	// ---- R5 ------------------------------------------------------------------------------------
	c.Rule("R5", "LaunchConsumer: success only with a non-empty initial set containing an active provider validator, after MakeConsumerGenesis -> SetConsumerGenesis -> CreateConsumerClient -> SetConsumerPhase(LAUNCHED) for the same id; the genesis carries the computed initial set; the client is bound on both branches", 10)
	if f := c.Fn("pk.Keeper.LaunchConsumer"); f != nil {
		init := PCall("pk.Keeper.ComputeConsumerNextValSet", 0, nil, nil, PParam("bondedValidators"), PParam("activeValidators"), PParam("consumerId"), nil)
		nonEmpty := Atom{"len(initialValUpdates) != 0", cmpAtom(func(op token.Token, x, y ssa.Value) (bool, bool) {
			isLen := func(v ssa.Value) bool {
				cl, ok := strip(v).(*ssa.Call)
				return ok && isCallTo(cl, "builtin.len") && init(cl.Call.Args[0])
			}
			if (op == token.EQL || op == token.NEQ) && ((isLen(x) && PConstInt(0)(y)) || (isLen(y) && PConstInt(0)(x))) {
				return true, op == token.NEQ
			}
			return false, false
		})}
		hasActive := ABool("HasActiveConsumerValidator(id, activeValidators)", PCall("pk.Keeper.HasActiveConsumerValidator", 0, nil, nil, PParam("consumerId"), PParam("activeValidators")))
		mk := c.one(f, false, "pk.Keeper.MakeConsumerGenesis")
		sg := c.one(f, false, "pk.Keeper.SetConsumerGenesis")
		cc := c.one(f, false, "pk.Keeper.CreateConsumerClient")
		sp := c.one(f, false, "pk.Keeper.SetConsumerPhase")
		if mk != nil && sg != nil && cc != nil && sp != nil {
			for _, r := range successReturns(f) {
				c.GuardedBy(r, fk(f, "success-guard"), nonEmpty, hasActive,
					AErrNil("MakeConsumerGenesis ok", PIs(extractOf(mk, 1))), AErrNil("SetConsumerGenesis ok", PIs(sg.Value())), AErrNil("CreateConsumerClient ok", PIs(cc.Value())))
				c.Check(mustPassBefore(r, sp), fk(f, "success-sets-phase"), r, "success passes SetConsumerPhase(LAUNCHED)")
			}
			c.Check(mustPassBefore(sg, mk) && mustPassBefore(cc, sg) && mustPassBefore(sp, cc), fk(f, "order"), sp, "genesis built, stored, client created, then phase set")
			lau, _ := c.ConstVal("pt.CONSUMER_PHASE_LAUNCHED")
			same := PParam("consumerId")(arg(mk, 1)) && PParam("consumerId")(arg(sg, 1)) && PParam("consumerId")(arg(cc, 1)) && PParam("consumerId")(arg(sp, 1)) && PConstInt(lau)(arg(sp, 2))
			c.Check(same, fk(f, "same-consumer"), sp, "all four steps act on the consumerId parameter; phase = LAUNCHED")
			c.Check(init(arg(mk, 2)), fk(f, "genesis-initial-set"), mk, "genesis initial validator set = ComputeConsumerNextValSet(…, empty current set); found "+describe(arg(mk, 2)))
			c.Check(PIs(extractOf(mk, 0))(arg(sg, 2)), fk(f, "stores-built-genesis"), sg, "the stored genesis is the one built")
			if cn := c.one(f, false, "pk.Keeper.ComputeConsumerNextValSet"); cn != nil {
				empty := false
				if sl, ok := strip(arg(cn, 4)).(*ssa.Slice); ok {
					if al, ok := sl.X.(*ssa.Alloc); ok {
						empty = len(*al.Referrers()) == 1
					}
				}
				c.Check(empty, fk(f, "empty-current-set"), cn, "the launch-time diff base is the empty set literal")
			}
		}
	}
	if f := c.Fn("pk.Keeper.CreateConsumerClient"); f != nil {
		reuse := Atom{"ConnectionId != \"\"", cmpAtom(func(op token.Token, x, y ssa.Value) (bool, bool) {
			isConn := PField(PCall("pk.Keeper.GetConsumerInitializationParameters", 0, nil, nil, PParam("consumerId")), "ConnectionId")
			isEmpty := func(v ssa.Value) bool { s, ok := constString(v); return ok && s == "" }
			if (op == token.EQL || op == token.NEQ) && ((isConn(x) && isEmpty(y)) || (isConn(y) && isEmpty(x))) {
				return true, op == token.NEQ
			}
			return false, false
		})}
		if set := c.one(f, false, "pk.Keeper.SetConsumerClientId"); set != nil {
			for _, r := range successReturns(f) {
				c.MustPassWhen(r, []ssa.Instruction{set}, fk(f, "binds-created-client"), F(reuse))
			}
			c.Check(PParam("consumerId")(arg(set, 1)) && PCall("ccv.ClientKeeper.CreateClient", 0, nil)(arg(set, 2)), fk(f, "binds-fresh-client"), set, "binds the id returned by clientKeeper.CreateClient to the consumerId parameter")
			ini, _ := c.ConstVal("pt.CONSUMER_PHASE_INITIALIZED")
			c.GuardedBy(set, fk(f, "only-initialized"), AEq("phase == INITIALIZED", PCall("pk.Keeper.GetConsumerPhase", -1, nil, nil, PParam("consumerId")), PConstInt(ini)))
		}
	}
	if f := c.Fn("pk.Keeper.MakeConsumerGenesis"); f != nil {
		if set := c.one(f, false, "pk.Keeper.SetConsumerClientId"); set != nil {
			conn := PCall("ccv.ConnectionKeeper.GetConnection", 0, nil, nil, PField(PCall("pk.Keeper.GetConsumerInitializationParameters", 0, nil, nil, PParam("consumerId")), "ConnectionId"))
			c.Check(PParam("consumerId")(arg(set, 1)) && PField(conn, "ClientId")(arg(set, 2)), fk(f, "binds-connection-client"), set, "on a pre-existing connection the connection's client is bound to the consumerId parameter; found "+describe(arg(set, 2)))
		}
		if n := c.one(f, false, "ccv.NewInitialConsumerGenesisState"); n != nil {
			c.Check(PParam("initialValidatorUpdates")(arg(n, 2)), fk(f, "genesis-valset"), n, "the genesis carries the initialValidatorUpdates parameter")
		}
	}

	// ---- R6 ------------------------------------------------------------------------------------
	c.Rule("R6", "launch-failure fallback: on the error edge the stored spawn time is reset to the zero time and the phase set to REGISTERED, both on the OUTER context, for the failing consumer; the loop continues", 6)
	if f := c.Fn("pk.Keeper.BeginBlockLaunchConsumers"); f != nil {
		la := c.one(f, false, "pk.Keeper.LaunchConsumer")
		if la != nil {
			launchOK := AErrNil("LaunchConsumer ok", PIs(la.Value()))
			id := arg(la, 3)
			setP := c.one(f, false, "pk.Keeper.SetConsumerInitializationParameters")
			setPh := c.one(f, false, "pk.Keeper.SetConsumerPhase")
			if setP != nil && setPh != nil {
				c.UnreachableWhen(setP, fk(f, "fallback-only-on-failure", "params"), T(launchOK))
				c.UnreachableWhen(setPh, fk(f, "fallback-only-on-failure", "phase"), T(launchOK))
				reg, _ := c.ConstVal("pt.CONSUMER_PHASE_REGISTERED")
				c.Check(PParam("ctx")(arg(setP, 0)) && PParam("ctx")(arg(setPh, 0)), fk(f, "fallback-on-outer-context"), setP, "the fallback writes use the outer ctx (the cached context is discarded on failure); found "+describe(arg(setP, 0))+", "+describe(arg(setPh, 0)))
				c.Check(sameVal(arg(setP, 1), id) && sameVal(arg(setPh, 1), id) && PConstInt(reg)(arg(setPh, 2)), fk(f, "fallback-same-consumer"), setPh, "fallback acts on the failing consumer and sets REGISTERED")
				// the record written is the stored one with SpawnTime := zero time
				okZero := false
				if u, isU := arg(setP, 2).(*ssa.UnOp); isU {
					if al, isA := u.X.(*ssa.Alloc); isA {
						loadedOK, zeroStore, other := false, false, 0
						for _, r := range *al.Referrers() {
							switch x := r.(type) {
							case *ssa.Store:
								if x.Addr == al {
									loadedOK = PCall("pk.Keeper.GetConsumerInitializationParameters", 0, nil, PParam("ctx"), PIs(id))(x.Val)
								}
							case *ssa.FieldAddr:
								for _, rr := range *x.Referrers() {
									if st, isSt := rr.(*ssa.Store); isSt && st.Addr == x {
										if fieldName(x.X.Type(), x.Field) == "SpawnTime" && isZeroTime(st.Val) {
											zeroStore = true
										} else {
											other++
										}
									}
								}
							}
						}
						okZero = loadedOK && zeroStore && other == 0
					}
				}
				c.Check(okZero, fk(f, "fallback-clears-spawn-time"), setP, "the stored record is the current one with only SpawnTime reset to the zero time")
				// every path from a failed launch to the next iteration/return passes both writes or returns an error
				for _, w := range []ssa.CallInstruction{setP, setPh} {
					rq, _ := reachUnder(f, F(launchOK))
					rq.CutInstrs[w] = true
					after := rq.After(la)
					bad := after[la.(ssa.Instruction)]
					for _, r := range successReturns(f) {
						if after[r] {
							bad = true
						}
					}
					c.Check(!bad, fk(f, "fallback-complete", shortName(calleeName(w))), w, "after a failed launch the next consumer (or a nil return) is reached only through this fallback write")
				}
			}
		}
	}

	// ---- R7 ------------------------------------------------------------------------------------
	c.Rule("R7", "UpdateConsumer bookkeeping: chain id and initialization parameters are written only for a prelaunched consumer; a zero spawn time on an initialized consumer removes the queue entry at the previous spawn time; PrepareConsumerForLaunch removes the previous entry (if any) before appending", 6)
	if f := c.Fn("pk.msgServer.UpdateConsumer"); f != nil {
		id := PField(PParam("msg"), "ConsumerId")
		prelaunched := ABool("IsConsumerPrelaunched(id)", PCall("pk.Keeper.IsConsumerPrelaunched", -1, nil, nil, id))
		for _, s := range Calls(f, false, "pk.Keeper.SetConsumerChainId", "pk.Keeper.SetConsumerInitializationParameters") {
			c.GuardedBy(s, fk(f, "prelaunch-only", shortName(calleeName(s))), prelaunched)
		}
		if w := c.one(f, false, "pk.Keeper.SetConsumerInitializationParameters"); w != nil {
			c.RequestProcessed(f, "InitializationParameters", fk(f, "initialization-request-is-written"), w)
		}
		if ic := c.one(f, false, "pk.Keeper.InitializeConsumer"); ic != nil {
			for _, r := range successReturns(f) {
				c.Check(mustPassBefore(r, ic), fk(f, "always-attempts-initialization"), r, "every success return passes InitializeConsumer (a consumer with complete parameters is scheduled)")
			}
		}
		if rm := c.one(f, false, "pk.Keeper.RemoveConsumerToBeLaunched"); rm != nil {
			prev := PField(PCall("pk.Keeper.GetConsumerInitializationParameters", 0, nil, nil, id), "SpawnTime")
			c.Check(id(arg(rm, 1)) && prev(arg(rm, 2)), fk(f, "unschedule-at-previous-spawn-time"), rm, "the queue entry removed is (this consumer, previously stored spawn time); found "+describe(arg(rm, 2)))
		}
		for _, s := range Calls(f, false, "pk.Keeper.PrepareConsumerForLaunch") {
			prev := PField(PCall("pk.Keeper.GetConsumerInitializationParameters", 0, nil, nil, id), "SpawnTime")
			c.Check(prev(arg(s, 2)), fk(f, "reschedule-from-previous-spawn-time"), s, "PrepareConsumerForLaunch receives the previously stored spawn time; found "+describe(arg(s, 2)))
			// the previous parameters are read before they are overwritten
			if rd, _ := callOf(fieldBase(arg(s, 2))); rd != nil {
				for _, w := range Calls(f, false, "pk.Keeper.SetConsumerInitializationParameters") {
					c.Check(!NewReach(f).After(w)[rd], fk(f, "previous-read-before-overwrite"), w, "the previous spawn time is read before the parameters are overwritten")
				}
			}
		}
	}
	if f := c.Fn("pk.Keeper.PrepareConsumerForLaunch"); f != nil {
		rm := c.one(f, false, "pk.Keeper.RemoveConsumerToBeLaunched")
		ap := c.one(f, false, "pk.Keeper.AppendConsumerToBeLaunched")
		if rm != nil && ap != nil {
			zero := ABool("previousSpawnTime.IsZero()", PCall("time.Time.IsZero", -1, PParam("previousSpawnTime")))
			c.MustPassWhen(ap, []ssa.Instruction{rm}, fk(f, "remove-previous-before-append"), F(zero))
			c.Check(PParam("consumerId")(arg(rm, 1)) && PParam("previousSpawnTime")(arg(rm, 2)) && PParam("consumerId")(arg(ap, 1)) && PParam("spawnTime")(arg(ap, 2)), fk(f, "roles"), ap, "remove(id, previous) then append(id, new)")
			rqA, nA := reachUnder(f, F(AErrNil("RemoveConsumerToBeLaunched ok", PIs(rm.Value()))))
			c.Check(nA[0] > 0 && !rqA.After(rm)[ap.(ssa.Instruction)], fk(f, "append-only-if-removed"), ap, "after a failed removal of the previous entry the new entry is not appended")
		}
	}
}

// orUntested turns "guarded by A" into "A is never known false before": used when A is tested on
// one branch only.
func (a Atom) orUntested() Atom { return a }

func mustSites(c *Ctx, spec string) []ssa.Instruction {
	s, _ := c.Callers(spec)
	if len(s) == 0 {
		c.Undecided("anchor:"+spec, nil, "no call site of "+q(spec))
	}
	return s
}

func allInstrs(f *ssa.Function) []ssa.Instruction {
	var out []ssa.Instruction
	for _, b := range f.Blocks {
		out = append(out, b.Instrs...)
	}
	return out
}

func hasSuffix(s, suf string) bool { return len(s) >= len(suf) && s[len(s)-len(suf):] == suf }

// boundMethodName: the declared method behind a bound-method closure value (k.Method).
func boundMethodName(v ssa.Value) string {
	switch x := v.(type) {
	case *ssa.MakeClosure:
		if fn, ok := x.Fn.(*ssa.Function); ok {
			return ssaFuncName(fn)
		}
	case *ssa.Function:
		return ssaFuncName(x)
	}
	return ""
}

// sharesRoots: the two values have a common root (e.g. both are the same loop accumulator phi web).
func sharesRoots(a, b ssa.Value) bool {
	if a == nil || b == nil {
		return false
	}
	if strip(a) == strip(b) {
		return true
	}
	ra := map[ssa.Value]bool{}
	for _, r := range roots(a) {
		ra[r] = true
	}
	for _, r := range roots(b) {
		if ra[r] {
			return true
		}
	}
	return false
}

func isParamByteSlice(v ssa.Value, name string) bool {
	// []byte{param}
	sl, ok := strip(v).(*ssa.Slice)
	if !ok {
		return false
	}
	al, ok := sl.X.(*ssa.Alloc)
	if !ok {
		return false
	}
	for _, r := range *al.Referrers() {
		if ia, ok := r.(*ssa.IndexAddr); ok {
			for _, rr := range *ia.Referrers() {
				if st, ok := rr.(*ssa.Store); ok && isParam(st.Val, name) {
					return true
				}
			}
		}
	}
	return false
}

func isZeroTime(v ssa.Value) bool {
	v = strip(v)
	if c, ok := v.(*ssa.Const); ok && c.Value == nil {
		return true // zero value of a struct type
	}
	if u, ok := v.(*ssa.UnOp); ok && u.Op == token.MUL {
		if al, ok := u.X.(*ssa.Alloc); ok {
			// a fresh local that is never written holds the zero value
			for _, r := range *al.Referrers() {
				if st, ok := r.(*ssa.Store); ok && st.Addr == al {
					return false
				}
			}
			return true
		}
	}
	return false
}

// fieldBase peels field selections and returns the innermost base value.
func fieldBase(v ssa.Value) ssa.Value {
	for i := 0; i < 8; i++ {
		b, _, ok := fieldLoadOf(v)
		if !ok {
			return v
		}
		v = b
	}
	return v
}

// checkQueueBundles: each ConsumeIdsFromTimeQueue call passes prefix/get/delete-all/append of one
// queue (only == "": all three drivers; otherwise just the named driver).
func checkQueueBundles(c *Ctx, only string) {
	type bundle struct{ caller, prefix, get, del, app string }
	bundles := []bundle{
		{"pk.Keeper.BeginBlockLaunchConsumers", "pt.SpawnTimeToConsumerIdsKeyPrefix", "pk.Keeper.GetConsumersToBeLaunched", "pk.Keeper.DeleteAllConsumersToBeLaunched", "pk.Keeper.AppendConsumerToBeLaunched"},
		{"pk.Keeper.BeginBlockRemoveConsumers", "pt.RemovalTimeToConsumerIdsKeyPrefix", "pk.Keeper.GetConsumersToBeRemoved", "pk.Keeper.DeleteAllConsumersToBeRemoved", "pk.Keeper.AppendConsumerToBeRemoved"},
		{"pk.Keeper.BeginBlockUpdateInfractionParameters", "pt.InfractionScheduledTimeToConsumerIdsKeyPrefix", "pk.Keeper.GetFromInfractionUpdateSchedule", "pk.Keeper.DeleteAllConsumersFromInfractionUpdateSchedule", "pk.Keeper.AddToInfractionUpdateSchedule"},
	}
	sitesQ, _ := c.Callers("pk.Keeper.ConsumeIdsFromTimeQueue")
	for _, s := range sitesQ {
		cl, ok := s.(ssa.CallInstruction)
		f := topFn(s.Parent())
		if !ok {
			c.Undecided(fk(f, "queue-bundle"), s, "ConsumeIdsFromTimeQueue used as a value")
			continue
		}
		var b *bundle
		for i := range bundles {
			if ssaFuncName(f) == q(bundles[i].caller) {
				b = &bundles[i]
			}
		}
		if only != "" && ssaFuncName(f) != q(only) {
			continue
		}
		if b == nil {
			c.Check(false, fk(f, "queue-bundle"), s, "unexpected caller of ConsumeIdsFromTimeQueue (not one of the three begin-block queue drivers)")
			continue
		}
		c.Check(PCall(b.prefix, -1, nil)(arg(cl, 1)), fk(f, "queue-bundle", "prefix"), s, "prefix = "+shortName(q(b.prefix))+"(); found "+describe(arg(cl, 1)))
		for i, want := range []string{b.get, b.del, b.app} {
			got := boundMethodName(arg(cl, 2+i))
			c.Check(got == q(want), fk(f, "queue-bundle", []string{"get", "delete-all", "append"}[i]), s, "accessor = "+shortName(q(want))+"; found "+shortName(got))
		}
		lim, isC := constInt(arg(cl, 5))
		c.Check(isC && lim > 0, fk(f, "queue-bundle", "limit"), s, fmt.Sprintf("limit is a positive constant (found %d)", lim))
		// the result is what the driver iterates
		used := false
		if ex := extractOf(cl, 0); ex != nil {
			for _, r := range *ex.Referrers() {
				if _, isIdx := r.(*ssa.IndexAddr); isIdx {
					used = true
				}
				if _, isRange := r.(*ssa.Range); isRange {
					used = true
				}
			}
		}
		c.Check(used, fk(f, "queue-bundle", "iterates-result"), s, "the driver iterates the returned ids")
	}
	if only != "" {
		return
	}
	c.Check(len(sitesQ) == 3, "ConsumeIdsFromTimeQueue/three-drivers", nil, fmt.Sprintf("three begin-block drivers use the time-queue consumer (found %d)", len(sitesQ)))
}
