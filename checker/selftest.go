package main

// Both-ways self-test: seeded single-edit variants of the repository, applied in memory through
// packages.Config.Overlay (nothing is written to /repo), each analysed in its own subprocess.
// A variant must make its expected rule fire; a benign variant must leave every rule silent.
// Self-test outcomes measure the checker, never the repository: they do not produce VIOLATION lines.

import (
	"encoding/json"
	"fmt"
	"os"
	"os/exec"
	"path/filepath"
	"runtime/debug"
	"sort"
	"strings"
	"sync"
)

type Variant struct {
	Name   string `json:"name"`
	File   string `json:"file"`   // path relative to the repository root
	Old    string `json:"old"`    // exact text, must occur exactly once
	New    string `json:"new"`    // replacement
	Edits  []Edit `json:"edits"`  // optional additional edits (cooperating sites)
	Expect string `json:"expect"` // rule that must fire, e.g. "C12.R1" ("" = any rule of the property)
	Benign bool   `json:"benign"` // behaviour-preserving edit: every rule must stay silent
	Why    string `json:"why"`
}

type Edit struct {
	File string `json:"file"`
	Old  string `json:"old"`
	New  string `json:"new"`
}

type VariantResult struct {
	Name    string   `json:"name"`
	Outcome string   `json:"outcome"` // caught | missed | silent | false-alarm | skipped | does-not-compile
	Fired   []string `json:"fired,omitempty"`
	Detail  string   `json:"detail,omitempty"`
}

func loadVariants(verifDir, prop string) ([]Variant, error) {
	b, err := os.ReadFile(filepath.Join(verifDir, "selftest", prop+".json"))
	if err != nil {
		if os.IsNotExist(err) {
			return nil, nil
		}
		return nil, err
	}
	var vs []Variant
	if err := json.Unmarshal(b, &vs); err != nil {
		return nil, fmt.Errorf("selftest/%s.json: %v", prop, err)
	}
	return vs, nil
}

func buildOverlay(repo string, v Variant) (map[string][]byte, string) {
	edits := append([]Edit{{v.File, v.Old, v.New}}, v.Edits...)
	ov := map[string][]byte{}
	for _, e := range edits {
		path := filepath.Join(repo, e.File)
		var src []byte
		if b, ok := ov[path]; ok {
			src = b
		} else {
			b, err := os.ReadFile(path)
			if err != nil {
				return nil, "file missing: " + e.File
			}
			src = b
		}
		if n := strings.Count(string(src), e.Old); n != 1 {
			return nil, fmt.Sprintf("anchor text occurs %d times in %s", n, e.File)
		}
		ov[path] = []byte(strings.Replace(string(src), e.Old, e.New, 1))
	}
	return ov, ""
}

// runVariantHere analyses one variant in this process.
func runVariantHere(repo, verifDir, prop string, v Variant) VariantResult {
	res := VariantResult{Name: v.Name}
	ov, why := buildOverlay(repo, v)
	if ov == nil {
		res.Outcome, res.Detail = "skipped", why
		return res
	}
	P, err := Load(repo, ov)
	if err != nil {
		res.Outcome, res.Detail = "does-not-compile", firstLine(err.Error())
		return res
	}
	def := props[prop]
	c := &Ctx{P: P, Prop: prop, Tier: "quick", floors: map[string]int{}, ruleDesc: map[string]string{}}
	func() {
		defer func() {
			if r := recover(); r != nil {
				c.curRule = prop + ".engine"
				c.add(Undecided, "analyser-panic", "", fmt.Sprintf("analyser panic: %v\n%s", r, debug.Stack()))
			}
		}()
		def.Run(c)
		c.traversalRule()
	}()
	count := map[string]int{}
	for _, o := range c.Obls {
		count[o.Rule]++
	}
	for r, fl := range c.floors {
		if count[r] < fl {
			c.Obls = append(c.Obls, Obl{Rule: r, Key: "instance-floor", Status: Undecided, Detail: "below floor"})
		}
	}
	known, _ := loadKnown(filepath.Join(verifDir, "known_findings.json"))
	fired := map[string]bool{}
	for _, o := range c.Obls {
		if o.Status == Discharged {
			continue
		}
		isK := false
		for _, k := range known.Findings {
			if k.Property == prop && k.Rule == o.Rule && k.Key == o.Key {
				isK = true
			}
		}
		if isK {
			continue
		}
		fired[o.Rule] = true
		if res.Detail == "" {
			res.Detail = fmt.Sprintf("%s %s at %s: %s", o.Rule, o.Key, o.Site, firstLine(o.Detail))
		}
	}
	for r := range fired {
		res.Fired = append(res.Fired, r)
	}
	sort.Strings(res.Fired)
	switch {
	case v.Benign && len(fired) == 0:
		res.Outcome = "silent"
	case v.Benign:
		res.Outcome = "false-alarm"
	case v.Expect == "" && len(fired) > 0, v.Expect != "" && fired[v.Expect]:
		res.Outcome = "caught"
	case len(fired) > 0:
		res.Outcome = "caught-by-other-rule"
	default:
		res.Outcome = "missed"
	}
	return res
}

// runSelftests runs every variant of the property in subprocesses (bounded parallelism).
func runSelftests(prop, repo, verifDir string) (map[string]interface{}, []VariantResult) {
	vs, err := loadVariants(verifDir, prop)
	if err != nil {
		return map[string]interface{}{"selftest_error": err.Error()}, nil
	}
	if len(vs) == 0 {
		return map[string]interface{}{"selftest_variants": 0}, nil
	}
	exe, _ := os.Executable()
	results := make([]VariantResult, len(vs))
	// worker subprocesses, each analysing a slice of the variants sequentially (the packages
	// imported from export data are loaded once per worker and shared by its variants)
	k := 6
	if len(vs) < k {
		k = len(vs)
	}
	var wg sync.WaitGroup
	for w := 0; w < k; w++ {
		var idx []int
		var names []string
		for i := w; i < len(vs); i += k {
			idx = append(idx, i)
			names = append(names, vs[i].Name)
		}
		wg.Add(1)
		go func(idx []int, names []string) {
			defer wg.Done()
			cmd := exec.Command(exe, "variant", "-property", prop, "-name", strings.Join(names, ","), "-repo", repo)
			cmd.Env = append(os.Environ(), "VERIF_DIR="+verifDir)
			out, err := cmd.Output()
			lines := strings.Split(strings.TrimSpace(string(out)), "\n")
			for j, i := range idx {
				var r VariantResult
				if j >= len(lines) || json.Unmarshal([]byte(lines[j]), &r) != nil {
					r = VariantResult{Name: vs[i].Name, Outcome: "error", Detail: fmt.Sprintf("worker failed: %v", err)}
				}
				results[i] = r
			}
		}(idx, names)
	}
	wg.Wait()
	tally := map[string]int{}
	for _, r := range results {
		tally[r.Outcome]++
	}
	return map[string]interface{}{
		"selftest_variants": len(vs),
		"selftest_tally":    tally,
		"selftest_results":  results,
	}, results
}
