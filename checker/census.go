package main

// Error / panic census (C19.R4): which error origins can flow to the error result of a function,
// and which explicit panics are reachable from it.

import (
	"fmt"
	"go/token"
	"go/types"
	"sort"
	"strings"

	"golang.org/x/tools/go/ssa"
)

// errLeaf is one origin of a non-nil error.
type errLeaf struct {
	Fn   string // function in which the origin lies
	Kind string // fresh | external | sentinel | param | codec | unknown
	What string // callee (external / codec), or ordinal for fresh errors
	Pos  token.Pos
}

func (l errLeaf) Key() string { return shortName(l.Fn) + "|" + l.Kind + "|" + l.What }

type census struct {
	p       *Prog
	memo    map[*ssa.Function]map[string]errLeaf
	onStack map[*ssa.Function]bool
	// actual function values passed for function-typed parameters: fn -> param index -> callees
	fnArgs map[*ssa.Function]map[int][]*ssa.Function
}

func newCensus(p *Prog) *census {
	cs := &census{p: p, memo: map[*ssa.Function]map[string]errLeaf{}, onStack: map[*ssa.Function]bool{}, fnArgs: map[*ssa.Function]map[int][]*ssa.Function{}}
	// collect function-valued actuals
	for _, f := range p.ModuleFuncs(modPath) {
		for _, cl := range AllCalls(f, false) {
			callee := cl.Common().StaticCallee()
			if callee == nil || callee.Blocks == nil {
				continue
			}
			for i, a := range cl.Common().Args {
				if _, ok := a.Type().Underlying().(*types.Signature); !ok {
					continue
				}
				var target *ssa.Function
				switch x := a.(type) {
				case *ssa.MakeClosure:
					target, _ = x.Fn.(*ssa.Function)
				case *ssa.Function:
					target = x
				}
				if target == nil {
					continue
				}
				if cs.fnArgs[callee] == nil {
					cs.fnArgs[callee] = map[int][]*ssa.Function{}
				}
				cs.fnArgs[callee][i] = append(cs.fnArgs[callee][i], target)
			}
		}
	}
	return cs
}

func errResultIndex(sig *types.Signature) int {
	res := sig.Results()
	if res.Len() > 0 && isErrorType(res.At(res.Len()-1).Type()) {
		return res.Len() - 1
	}
	return -1
}

// origins returns the error leaves that may reach fn's error result.
func (cs *census) origins(fn *ssa.Function) map[string]errLeaf {
	if m, ok := cs.memo[fn]; ok {
		return m
	}
	out := map[string]errLeaf{}
	if cs.onStack[fn] {
		return out
	}
	cs.onStack[fn] = true
	defer func() { cs.onStack[fn] = false }()
	// bound-method wrappers and thunks: delegate to the wrapped method
	if fn.Blocks == nil {
		return out
	}
	idx := errResultIndex(fn.Signature)
	if idx < 0 {
		cs.memo[fn] = out
		return out
	}
	fresh := 0
	seen := map[ssa.Value]bool{}
	var flow func(v ssa.Value, pos token.Pos)
	add := func(l errLeaf) { out[l.Key()] = l }
	flow = func(v ssa.Value, pos token.Pos) {
		for _, r := range roots(v) {
			if seen[r] {
				continue
			}
			seen[r] = true
			if isNilConst(r) {
				continue
			}
			if v.Pos().IsValid() {
				pos = v.Pos()
			}
			switch x := r.(type) {
			case *ssa.Parameter:
				add(errLeaf{ssaFuncName(fn), "param", x.Name(), pos})
				continue
			case *ssa.FreeVar:
				add(errLeaf{ssaFuncName(fn), "param", "captured " + x.Name(), pos})
				continue
			}
			if g, ok := globalLoad(r); ok {
				add(errLeaf{ssaFuncName(fn), "sentinel", g.Name(), pos})
				continue
			}
			c, _ := callOf(r)
			if c == nil {
				// named result slot etc.
				if u, ok := r.(*ssa.UnOp); ok && u.Op == token.MUL {
					if al, ok := u.X.(*ssa.Alloc); ok {
						for _, ref := range *al.Referrers() {
							if st, ok := ref.(*ssa.Store); ok && st.Addr == al {
								flow(st.Val, pos)
							}
						}
						continue
					}
				}
				add(errLeaf{ssaFuncName(fn), "unknown", describe(r), pos})
				continue
			}
			n := calleeName(c)
			if errorCtors[n] {
				// wrapped causes: error-typed arguments, or err.Error() strings, incl. variadic elements
				causes := wrappedCauses(c)
				if len(causes) == 0 {
					fresh++
					add(errLeaf{ssaFuncName(fn), "fresh", fmt.Sprintf("#%d", fresh), c.Pos()})
				}
				for _, cause := range causes {
					flow(cause, c.Pos())
				}
				continue
			}
			callee := c.Call.StaticCallee()
			switch {
			case callee != nil && callee.Blocks != nil && strings.HasPrefix(fnPkgPath(callee), modPath) && !strings.HasSuffix(cs.p.fileOf(callee), ".pb.go"):
				for k, l := range cs.origins(callee) {
					out[k] = l
				}
			case callee != nil && strings.HasSuffix(cs.p.fileOf(callee), ".pb.go") || strings.Contains(n, "Unmarshal") || strings.Contains(n, "Marshal"):
				add(errLeaf{ssaFuncName(fn), "codec", shortName(n), c.Pos()})
			case callee == nil && !c.Call.IsInvoke():
				// call through a function value: a function-typed parameter?
				if p, ok := c.Call.Value.(*ssa.Parameter); ok {
					pi := -1
					for i, q := range fn.Params {
						if q == p {
							pi = i
						}
					}
					targets := cs.fnArgs[fn][pi]
					if len(targets) == 0 {
						add(errLeaf{ssaFuncName(fn), "unknown", "function parameter " + p.Name(), c.Pos()})
					}
					for _, t := range targets {
						for k, l := range cs.origins(resolveWrapper(t)) {
							out[k] = l
						}
					}
				} else {
					add(errLeaf{ssaFuncName(fn), "unknown", "dynamic call", c.Pos()})
				}
			default:
				add(errLeaf{ssaFuncName(fn), "external", shortName(n), c.Pos()})
			}
		}
	}
	for _, r := range Returns(fn) {
		flow(r.Results[idx], r.Pos())
	}
	cs.memo[fn] = out
	return out
}

// resolveWrapper maps a bound-method wrapper to the wrapped declared method (if it has a body).
func resolveWrapper(f *ssa.Function) *ssa.Function {
	if f.Synthetic == "" || f.Blocks == nil {
		return f
	}
	// the wrapper's body is a single call to the real method
	for _, cl := range AllCalls(f, false) {
		if callee := cl.Common().StaticCallee(); callee != nil {
			return callee
		}
	}
	return f
}

// wrappedCauses: error values wrapped by an error constructor call.
func wrappedCauses(c *ssa.Call) []ssa.Value {
	var out []ssa.Value
	var visit func(v ssa.Value)
	visit = func(v ssa.Value) {
		v0 := v
		if mi, ok := v.(*ssa.MakeInterface); ok {
			v = mi.X
		}
		if ci, ok := v.(*ssa.ChangeInterface); ok {
			v = ci.X
		}
		if isErrorType(v.Type()) {
			if _, isG := globalLoad(v); isG {
				return // a sentinel used as wrap target is not a cause by itself
			}
			out = append(out, v)
			return
		}
		// err.Error()
		if cl, ok := v.(*ssa.Call); ok && cl.Call.IsInvoke() && cl.Call.Method.Name() == "Error" && isErrorType(cl.Call.Value.Type()) {
			out = append(out, cl.Call.Value)
			return
		}
		// variadic slice
		if sl, ok := v0.(*ssa.Slice); ok {
			if al, ok := sl.X.(*ssa.Alloc); ok {
				for _, r := range *al.Referrers() {
					if ia, ok := r.(*ssa.IndexAddr); ok {
						for _, rr := range *ia.Referrers() {
							if st, ok := rr.(*ssa.Store); ok && st.Addr == ia {
								visit(st.Val)
							}
						}
					}
				}
			}
		}
	}
	for _, a := range c.Call.Args {
		visit(a)
	}
	return out
}

// panicSites lists explicit panic instructions reachable from fn through static calls.
type panicSite struct {
	Fn    string
	Class string // auto classification, "" if none
	Instr *ssa.Panic
}

func (cs *census) panics(from *ssa.Function) []panicSite {
	var out []panicSite
	visited := map[*ssa.Function]bool{}
	var walk func(f *ssa.Function)
	walk = func(f *ssa.Function) {
		if f == nil || visited[f] || f.Blocks == nil {
			return
		}
		visited[f] = true
		if !strings.HasPrefix(fnPkgPath(f), modPath) || strings.HasSuffix(cs.p.fileOf(f), ".pb.go") {
			return
		}
		for _, p := range Panics(f) {
			out = append(out, panicSite{ssaFuncName(topFn(f)), classifyPanic(p), p})
		}
		for _, cl := range AllCalls(f, false) {
			if callee := cl.Common().StaticCallee(); callee != nil {
				walk(resolveWrapper(callee))
			}
			for _, a := range cl.Common().Args {
				if mc, ok := a.(*ssa.MakeClosure); ok {
					if t, ok := mc.Fn.(*ssa.Function); ok {
						walk(resolveWrapper(t))
					}
				}
			}
		}
		for _, a := range f.AnonFuncs {
			walk(a)
		}
	}
	walk(from)
	sort.Slice(out, func(i, j int) bool {
		if out[i].Fn != out[j].Fn {
			return out[i].Fn < out[j].Fn
		}
		return out[i].Instr.Pos() < out[j].Instr.Pos()
	})
	return out
}

// classifyPanic: structural auto-classification of a panic by the test that guards it.
func classifyPanic(p *ssa.Panic) string {
	fn := p.Parent()
	// guarded by err != nil of a codec call, or bz == nil of a store read
	for _, b := range fn.Blocks {
		iff, ok := b.Instrs[len(b.Instrs)-1].(*ssa.If)
		if !ok {
			continue
		}
		l := normCond(iff.Cond)
		bo, ok := l.V.(*ssa.BinOp)
		if !ok || (bo.Op != token.EQL && bo.Op != token.NEQ) {
			continue
		}
		var e ssa.Value
		if isNilConst(bo.Y) {
			e = bo.X
		} else if isNilConst(bo.X) {
			e = bo.Y
		} else {
			continue
		}
		// the panic must be reachable through exactly one edge of this test
		r0 := NewReach(fn)
		r0.CutEdges[edge{b, b.Succs[0]}] = true
		r1 := NewReach(fn)
		r1.CutEdges[edge{b, b.Succs[1]}] = true
		via0, via1 := !r0.From(nil)[p], !r1.From(nil)[p]
		if via0 == via1 {
			continue
		}
		// which value of e leads to the panic?
		thenIsNonNil := bo.Op == token.NEQ
		if l.Neg {
			thenIsNonNil = !thenIsNonNil
		}
		panicOnNonNil := (via0 && thenIsNonNil) || (via1 && !thenIsNonNil)
		for _, rt := range roots(e) {
			c, _ := callOf(rt)
			if c == nil {
				continue
			}
			n := calleeName(c)
			switch {
			case panicOnNonNil && (strings.Contains(n, "Unmarshal") || strings.Contains(n, "Marshal") || strings.Contains(n, "ParseTimeBytes") || strings.Contains(n, "UnpackAny") || strings.Contains(n, "ParseStringId") || strings.Contains(n, "ParseTime")):
				return "codec: " + shortName(n)
			case !panicOnNonNil && strings.Contains(n, "KVStore.Get"):
				return "store: mandatory singleton missing"
			}
		}
	}
	return ""
}
