package main

import (
	"golang.org/x/tools/go/ssa"
)

const hexBytes = "github.com/cometbft/cometbft/libs/bytes.HexBytes.Bytes"

// resolved(consumer, raw): GetProviderAddrFromConsumerAddr(ctx, consumer, NewConsumerConsAddress(raw))
func resolvedAddr(consumer, raw Pat) Pat {
	return PCall("pk.Keeper.GetProviderAddrFromConsumerAddr", -1, nil, nil, consumer, PCall("pt.NewConsumerConsAddress", -1, nil, raw))
}

func runC06(c *Ctx) {
	launched, _ := c.ConstVal("pt.CONSUMER_PHASE_LAUNCHED")
	consumerAddr, providerAddr, oldAddr := akPats()

	// ---- R1 -----------------------------------------------------------------------------------
	c.Rule("R1", "AssignConsumerKey on a launched consumer: the replaced address is scheduled for pruning at BlockTime+UnbondingTime and its reverse mapping cannot be deleted; otherwise it is deleted immediately", 6)
	if ak := c.Fn("pk.Keeper.AssignConsumerKey"); ak != nil {
		hasAssignment := ABool("GetValidatorConsumerPubKey(consumerId, providerAddr) found",
			PCall("pk.Keeper.GetValidatorConsumerPubKey", 1, nil, nil, PParam("consumerId"), providerAddr))
		phaseLaunched := AEq("phase == LAUNCHED", PCall("pk.Keeper.GetConsumerPhase", -1, nil, nil, PParam("consumerId")), PConstInt(launched))
		app := c.one(ak, false, "pk.Keeper.AppendConsumerAddrsToPrune")
		del := c.one(ak, false, "pk.Keeper.DeleteValidatorByConsumerAddr")
		if app != nil && del != nil {
			c.GuardedBy(app, fk(ak, "schedule-guard"), phaseLaunched)
			ts := PCall("time.Time.Add", -1, PCall("sdk.Context.BlockTime", -1, nil), PCall("ccv.StakingKeeper.UnbondingTime", 0, nil))
			c.Check(PParam("consumerId")(arg(app, 1)), fk(ak, "schedule-consumer"), app, "scheduled for the consumerId parameter")
			c.Check(ts(arg(app, 2)), fk(ak, "schedule-time"), app, "prune time = ctx.BlockTime().Add(stakingKeeper.UnbondingTime(ctx)); found "+describe(arg(app, 2)))
			c.Check(oldAddr(arg(app, 3)), fk(ak, "schedule-address"), app, "scheduled address = address of the previously assigned key of this validator; found "+describe(arg(app, 3)))
			c.UnreachableWhen(del, fk(ak, "no-delete-when-launched"), T(phaseLaunched))
			for _, r := range successReturns(ak) {
				c.MustPassWhen(r, []ssa.Instruction{app}, fk(ak, "launched-replacement-schedules"), T(hasAssignment), T(phaseLaunched))
			}
			// a key whose reverse mapping still exists (assigned, or replaced and awaiting pruning) cannot be
			// assigned again: otherwise the pending prune entry later deletes the mapping of a key in use
			addrKnown := ABool("GetValidatorByConsumerAddr(consumerId, consumerAddr) found",
				PCall("pk.Keeper.GetValidatorByConsumerAddr", 1, nil, nil, PParam("consumerId"), consumerAddr))
			for _, s := range Calls(ak, false, "pk.Keeper.SetValidatorByConsumerAddr", "pk.Keeper.SetValidatorConsumerPubKey") {
				c.UnreachableWhen(s, fk(ak, "pending-prune-key-not-reassignable", shortName(calleeName(s))), T(addrKnown))
			}
		}
	}

	// ---- R2 -----------------------------------------------------------------------------------
	c.Rule("R2", "pruning: PruneKeyAssignments deletes exactly the addresses returned by ConsumeConsumerAddrsToPrune(ctx, id, BlockTime); that function iterates [prefix·len·id, prefix·len·id·ts] and skips entries later than ts", 7)
	if f := c.Fn("pk.Keeper.PruneKeyAssignments"); f != nil {
		if del := c.one(f, false, "pk.Keeper.DeleteValidatorByConsumerAddr"); del != nil {
			c.Check(PParam("consumerId")(arg(del, 1)), fk(f, "same-consumer"), del, "deletes for the consumerId parameter")
			src := PCall("pk.Keeper.ConsumeConsumerAddrsToPrune", -1, nil, nil, PParam("consumerId"), PCall("sdk.Context.BlockTime", -1, nil))
			ok := false
			if cl, _ := callOf(arg(del, 2)); cl != nil && isCallTo(cl, "pt.NewConsumerConsAddress") {
				for _, r := range elementSource(arg(cl, 0)) {
					ok = PField(src, "Addresses")(r)
				}
			}
			c.Check(ok, fk(f, "deletes-due-addresses"), del, "deleted addresses are the elements of ConsumeConsumerAddrsToPrune(ctx, consumerId, ctx.BlockTime()).Addresses; found "+describe(arg(del, 2)))
		}
	}
	if f := c.Fn("pk.Keeper.ConsumeConsumerAddrsToPrune"); f != nil {
		if it := c.one(f, false, "store.KVStore.Iterator"); it != nil {
			start := PCall("pt.StringIdWithLenKey", -1, nil, PCall("pt.ConsumerAddrsToPruneV2KeyPrefix", -1, nil), PParam("consumerId"))
			end := PCall("store.InclusiveEndBytes", -1, nil, PCall("pt.ConsumerAddrsToPruneV2Key", -1, nil, PParam("consumerId"), PParam("ts")))
			c.Check(start(arg(it, 0)), fk(f, "range-start"), it, "range start = length-delimited prefix of this consumer; found "+describe(arg(it, 0)))
			c.Check(end(arg(it, 1)), fk(f, "range-end"), it, "range end = InclusiveEndBytes(key(consumerId, ts)); found "+describe(arg(it, 1)))
			c.KeyShapeIs("pt.ConsumerAddrsToPruneV2Key", "Const(ConsumerAddrsToPruneV2Key)·Len8(param:consumerId)·Raw(param:consumerId)·Time(param:pruneTs)", "the range [consumer prefix, key(consumer, ts)] selects exactly the entries due at ts")
		}
		late := ABool("pruneTs.After(ts)", PCall("time.Time.After", -1, PCall("pt.ParseStringIdAndTsKey", 1, nil), PParam("ts")))
		n := 0
		for _, cl := range Calls(f, false, "builtin.append") {
			n++
			c.UnreachableAfterHold(cl, fk(f, "skip-later-entries"), late)
		}
		c.Check(n >= 2, fk(f, "collects"), f, "collects keys and addresses by append")
		// only collected keys are deleted
		for _, d := range Calls(f, false, "store.KVStore.Delete") {
			ok := false
			for _, r := range elementSource(arg(d, 0)) {
				if cl, _ := callOf(r); cl != nil && isCallTo(cl, "builtin.append") {
					ok = true
				} else if _, isC := r.(*ssa.Const); isC {
					ok = ok || false
				} else {
					ok = false
					break
				}
			}
			c.Check(ok, fk(f, "deletes-collected-keys"), d, "store.Delete is applied to the collected (due) keys only")
			// and what is collected is the visited entry's own key (a rebuilt key need not be the entry's)
			okKey, found := true, ""
			for _, r := range elementSource(arg(d, 0)) {
				cl, _ := callOf(r)
				if cl == nil || !isCallTo(cl, "builtin.append") {
					continue
				}
				elems, okE := appendedElems(cl)
				if !okE {
					okKey, found = false, describe(cl)
				}
				for _, e := range elems {
					kc, _ := callOf(e)
					if kc == nil || !isIteratorKey(kc) {
						okKey, found = false, describe(e)
					}
				}
			}
			c.Check(okKey, fk(f, "deleted-key-is-entry-key"), d, "every collected key is iterator.Key() of the visited entry"+map[bool]string{true: "", false: "; found " + found}[okKey])
		}
	}

	// ---- R3 -----------------------------------------------------------------------------------
	c.Rule("R3", "GetProviderAddrFromConsumerAddr: mapping found => mapped validator, else the address itself", 2)
	if f := c.Fn("pk.Keeper.GetProviderAddrFromConsumerAddr"); f != nil {
		look := PCall("pk.Keeper.GetValidatorByConsumerAddr", -2, nil, nil, PParam("consumerId"), PParam("consumerAddr"))
		found := ABool("found", PCall("pk.Keeper.GetValidatorByConsumerAddr", 1, nil, nil, PParam("consumerId"), PParam("consumerAddr")))
		nMapped, nIdent := 0, 0
		for _, r := range Returns(f) {
			v := r.Results[0]
			switch {
			case PCall("pk.Keeper.GetValidatorByConsumerAddr", 0, nil, nil, PParam("consumerId"), PParam("consumerAddr"))(v):
				nMapped++
				c.GuardedBy(r, fk(f, "mapped-when-found"), found)
			case PCall("pt.NewProviderConsAddress", -1, nil, PCall("pt.ConsumerConsAddress.ToSdkConsAddr", -1, PParam("consumerAddr")))(v):
				nIdent++
				c.UnreachableAfterHold(r, fk(f, "identity-only-when-not-found"), found)
			default:
				c.Check(false, fk(f, "return-shape"), r, "unexpected result "+describe(v))
			}
		}
		_ = look
		c.Check(nMapped >= 1 && nIdent >= 1, fk(f, "both-cases"), f, "has a mapped and an identity return")
	}

	// ---- R4 -----------------------------------------------------------------------------------
	c.Rule("R4", "every punishment path resolves the reported address with GetProviderAddrFromConsumerAddr for the same consumer, and punishes exactly the resolved address; genesis import restores the prune queue (consumer, deadline, address) as exported", 12)
	if f := c.Fn("pk.Keeper.HandleSlashPacket"); f != nil {
		res := resolvedAddr(PParam("consumerId"), PField(PParam("data"), "Validator", "Address"))
		sdkAddr := PCall("pt.ProviderConsAddress.ToSdkConsAddr", -1, res)
		for _, s := range Calls(f, false, "ccv.StakingKeeper.SlashWithInfractionReason", "ccv.StakingKeeper.Jail", "ccv.SlashingKeeper.JailUntil", "ccv.SlashingKeeper.IsTombstoned", "ccv.StakingKeeper.GetValidatorByConsAddr") {
			c.Check(sdkAddr(arg(s, 1)), fk(f, "addr", shortName(calleeName(s))), s, "address = GetProviderAddrFromConsumerAddr(ctx, consumerId, data.Validator.Address).ToSdkConsAddr(); found "+describe(arg(s, 1)))
		}
	}
	if f := c.Fn("pk.Keeper.OnRecvSlashPacket"); f != nil {
		cid := PCall("pk.Keeper.GetChannelIdToConsumerId", 0, nil, nil, PField(PParam("packet"), "DestinationChannel"))
		res := resolvedAddr(cid, PField(PParam("data"), "Validator", "Address"))
		for _, s := range Calls(f, false, "pk.Keeper.IsConsumerValidator") {
			c.Check(cid(arg(s, 1)) && res(arg(s, 2)), fk(f, "addr", "IsConsumerValidator"), s, "membership is tested for the resolved provider address on the packet's consumer")
		}
		for _, s := range Calls(f, false, "pk.Keeper.GetEffectiveValPower") {
			c.Check(res(arg(s, 1)), fk(f, "addr", "GetEffectiveValPower"), s, "meter deduction uses the resolved provider address")
		}
		for _, s := range Calls(f, false, "pk.Keeper.HandleSlashPacket") {
			c.Check(cid(arg(s, 1)) && PParam("data")(arg(s, 2)), fk(f, "handle-args"), s, "HandleSlashPacket(ctx, consumerId of the packet's channel, data)")
		}
	}
	if f := c.Fn("pk.Keeper.HandleConsumerDoubleVoting"); f != nil {
		res := resolvedAddr(PParam("consumerId"), PCall(hexBytes, -1, PField(PParam("evidence"), "VoteA", "ValidatorAddress")))
		for _, s := range Calls(f, false, "pk.Keeper.SlashValidator", "pk.Keeper.JailAndTombstoneValidator") {
			c.Check(res(arg(s, 1)), fk(f, "addr", shortName(calleeName(s))), s, "punished address = resolved address of evidence.VoteA.ValidatorAddress on this consumer; found "+describe(arg(s, 1)))
		}
	}
	if f := c.Fn("pk.Keeper.HandleConsumerMisbehaviour"); f != nil {
		for _, s := range Calls(f, false, "pk.Keeper.SlashValidator", "pk.Keeper.JailAndTombstoneValidator") {
			ok := false
			if cl, _ := callOf(arg(s, 1)); cl != nil && isCallTo(cl, "pk.Keeper.GetProviderAddrFromConsumerAddr") && PParam("consumerId")(arg(cl, 1)) {
				if n, _ := callOf(arg(cl, 2)); n != nil && isCallTo(n, "pt.NewConsumerConsAddress") {
					if b, _ := callOf(arg(n, 0)); b != nil && isCallTo(b, hexBytes) {
						if base, fld, okf := fieldLoadOf(callRecv(b)); okf && fld == "Address" {
							ok = elementOfCall(base, "pk.Keeper.GetByzantineValidators")
						}
					}
				}
			}
			c.Check(ok, fk(f, "addr", shortName(calleeName(s))), s, "punished address = resolved address of a validator returned by GetByzantineValidators; found "+describe(arg(s, 1)))
		}
	}
	for _, fn := range []string{"pk.Keeper.SlashValidator", "pk.Keeper.JailAndTombstoneValidator"} {
		f := c.Fn(fn)
		if f == nil {
			continue
		}
		own := PCall("pt.ProviderConsAddress.ToSdkConsAddr", -1, PParam("providerAddr"))
		val := PCall("ccv.StakingKeeper.GetValidatorByConsAddr", 0, nil, nil, own)
		for _, s := range Calls(f, false, "ccv.StakingKeeper.Jail", "ccv.SlashingKeeper.JailUntil", "ccv.SlashingKeeper.Tombstone", "ccv.SlashingKeeper.IsTombstoned", "ccv.StakingKeeper.GetValidatorByConsAddr") {
			c.Check(own(arg(s, 1)), fk(f, "addr", shortName(calleeName(s))), s, "acts on the providerAddr parameter; found "+describe(arg(s, 1)))
		}
		for _, s := range Calls(f, false, "ccv.StakingKeeper.SlashWithInfractionReason") {
			c.Check(PCall("staking.Validator.GetConsAddr", 0, val)(arg(s, 1)), fk(f, "addr", "SlashWithInfractionReason"), s, "slashes the validator looked up from the providerAddr parameter; found "+describe(arg(s, 1)))
		}
	}

	// ---- R5 -----------------------------------------------------------------------------------
	// genesis restores the prune queue with the exported deadline
	if f := c.Fn("pk.Keeper.InitGenesis"); f != nil {
		item := PElemOf(PField(PParam("genState"), "ConsumerAddrsToPruneV2"))
		c.ArgRoles(f, "pk.Keeper.AppendConsumerAddrsToPrune", "genesis-prune-queue", "AppendConsumerAddrsToPrune(item.ChainId, item.PruneTs, consumer(addr of item.ConsumerAddrs.Addresses))",
			PField(item, "ChainId"), PField(item, "PruneTs"), PCall("pt.NewConsumerConsAddress", -1, nil, PElemOf(PField(PField(item, "ConsumerAddrs"), "Addresses"))))
	}
	if f := c.Fn("pk.Keeper.ExportGenesis"); f != nil {
		if g := c.one(f, false, "pk.Keeper.GetAllConsumerAddrsToPrune"); g != nil {
			c.Check(elementOfCall(arg(g, 1), "pk.Keeper.GetAllConsumersWithIBCClients"), fk(f, "exports-prune-queue"), g, "exports the prune queue of every consumer with a client; found "+describe(arg(g, 1)))
		}
	}
	c.Rule("R5", "pruning runs every block for every consumer that has a client (including stopped ones): EndBlockCIS loops over GetAllConsumersWithIBCClients; provider EndBlock always runs EndBlockCIS", 4)
	c.OnlyCalledFrom("pk.Keeper.PruneKeyAssignments", "pk.Keeper.EndBlockCIS")
	if f := c.Fn("pk.Keeper.EndBlockCIS"); f != nil {
		if p := c.one(f, false, "pk.Keeper.PruneKeyAssignments"); p != nil {
			c.Check(inLoop(p) && elementOfCall(arg(p, 1), "pk.Keeper.GetAllConsumersWithIBCClients"), fk(f, "all-consumers-with-clients"), p, "PruneKeyAssignments runs for every id of GetAllConsumersWithIBCClients; found "+describe(arg(p, 1)))
			c.Check(unconditionalInLoop(p), fk(f, "no-phase-filter"), p, "pruning is unconditional inside the loop (stopped consumers keep pruning until removal)")
		}
	}
	if eb := c.Fn("provider.AppModule.EndBlock"); eb != nil {
		if cis := c.one(eb, false, "pk.Keeper.EndBlockCIS"); cis != nil {
			for _, r := range Returns(eb) {
				c.Check(mustPassBefore(r, cis), fk(eb, "always-CIS"), r, "every return of EndBlock passes EndBlockCIS")
			}
		}
	}
	if f := c.Fn("pk.Keeper.GetAllConsumersWithIBCClients"); f != nil {
		if it := c.one(f, false, "store.KVStorePrefixIterator"); it != nil {
			c.Check(PCall("pt.ConsumerIdToClientIdKeyPrefix", -1, nil)(arg(it, 1)), fk(f, "iterates-client-index"), it, "iterates the consumer->client index; found "+describe(arg(it, 1)))
		}
	}
}
