package main

import (
	"fmt"
	"strings"

	"golang.org/x/tools/go/ssa"
)

// wrapSites: errorsmod.Wrap/Wrapf calls in module code and whether the wrapped operand is
// certainly non-nil at the call (Wrap(nil, …) is nil: a rejection that silently succeeds).
type wrapSite struct {
	Fn   *ssa.Function
	Call ssa.CallInstruction
	OK   bool
}

func wrapSites(P *Prog, pkgs ...string) []wrapSite {
	var out []wrapSite
	for _, f := range P.ModuleFuncs(pkgs...) {
		if isTestFile(P, f) {
			continue
		}
		for _, cl := range AllCalls(f, false) {
			n := calleeName(cl)
			if !strings.HasPrefix(n, "cosmossdk.io/errors.Wrap") {
				continue
			}
			args := callArgs(cl)
			if len(args) == 0 {
				continue
			}
			out = append(out, wrapSite{f, cl, operandIsError(cl, args[0])})
		}
	}
	return out
}

// operandIsError: the value is a sentinel, a fresh error, or guarded non-nil on every path to site.
func operandIsError(site ssa.Instruction, v ssa.Value) bool {
	for _, r := range roots(v) {
		if isNilConst(r) {
			return false
		}
		if _, isG := globalLoad(r); isG {
			continue
		}
		if c, _ := callOf(r); c != nil && errorCtors[calleeName(c)] && !strings.HasPrefix(calleeName(c), "cosmossdk.io/errors.Wrap") {
			continue
		}
		ok, _ := Guarded(site, func(leaf ssa.Value) (bool, bool) {
			b, isb := leaf.(*ssa.BinOp)
			if !isb || (b.Op.String() != "==" && b.Op.String() != "!=") {
				return false, false
			}
			var e ssa.Value
			if isNilConst(b.Y) {
				e = b.X
			} else if isNilConst(b.X) {
				e = b.Y
			} else {
				return false, false
			}
			match := false
			for _, er := range roots(e) {
				if strip(er) == strip(r) {
					match = true
				}
			}
			if !match || len(roots(e)) != 1 {
				return false, false
			}
			return true, b.Op.String() == "!="
		})
		if !ok {
			return false
		}
	}
	return len(roots(v)) > 0
}

func debugWrapNil(P *Prog) {
	n, bad := 0, 0
	for _, s := range wrapSites(P, "github.com/cosmos/interchain-security/v7/x") {
		n++
		if !s.OK {
			bad++
			fmt.Printf("wrap-maybe-nil %s %s operand=%s\n", P.InstrPos(s.Call), shortName(ssaFuncName(topFn(s.Fn))), describe(callArgs(s.Call)[0]))
		}
	}
	fmt.Printf("%d wrap sites, %d with a possibly nil operand\n", n, bad)
}

// droppedErrors: calls in module code to functions of this repository (or keeper interfaces) whose
// error result is never read.
func droppedErrors(P *Prog, pkgs ...string) (sites []ssa.CallInstruction, total int) {
	for _, f := range P.ModuleFuncs(pkgs...) {
		if isTestFile(P, f) {
			continue
		}
		for _, cl := range AllCalls(f, false) {
			if _, isDefer := cl.(*ssa.Defer); isDefer {
				continue
			}
			sig := cl.Common().Signature()
			ei := errResultIndex(sig)
			if ei < 0 {
				continue
			}
			n := calleeName(cl)
			if !strings.HasPrefix(n, modPath) {
				continue
			}
			total++
			v := cl.Value()
			if v == nil {
				sites = append(sites, cl)
				continue
			}
			used := false
			if sig.Results().Len() == 1 {
				for _, r := range *v.Referrers() {
					if _, isDbg := r.(*ssa.DebugRef); !isDbg {
						used = true
					}
				}
			} else {
				for _, r := range *v.Referrers() {
					if ex, ok := r.(*ssa.Extract); ok && ex.Index == ei {
						for _, rr := range *ex.Referrers() {
							if _, isDbg := rr.(*ssa.DebugRef); !isDbg {
								used = true
							}
						}
					}
				}
			}
			if !used {
				sites = append(sites, cl)
			}
		}
	}
	return
}
