package main

import (
	"fmt"
	"go/token"
	"go/types"
	"strings"

	"golang.org/x/tools/go/ssa"
)

func init() {
	register(&propDef{
		ID: "C02",
		Explanation: "Decides the eligibility predicate exhaustively and the provenance of every field of a consumer validator: CanValidateChain's decision table over its 8 boolean atoms (256 rows), the filter closure (canValidate AND fulfillsMinStake, errors propagated), FulfillsMinStake and HasMinPower tables with operand roles, FilterValidators appending exactly the accepted validators built from the same staking validator, " +
			"CreateConsumerValidator taking power from GetLastValidatorPower of that validator, the key from its assignment on that consumer or else its provider key, and the argument roles (bonded vs active set) at every call of ComputeConsumerNextValSet; sibling agreement of the three 'first M bonded validators' selections.",
		NotDecided: []string{"staking's own bookkeeping of bonded/jailed validators and of last validator power", "composition with caps (C04)", "set-level completeness of the loop in FilterValidators beyond its per-element structure"},
		Run:        runC02,
	})
}

func runC02(c *Ctx) {
	// ---- R1 ------------------------------------------------------------------------------------
	c.Rule("R1", "CanValidateChain = (optedIn OR (topN>0 AND hasMinPower)) AND (allowlist empty OR allowlisted) AND (denylist empty OR NOT denylisted); a HasMinPower error yields (false, err)", 1)
	if f := c.Fn("pk.Keeper.CanValidateChain"); f != nil {
		id, addr := PParam("consumerId"), PParam("providerAddr")
		hm := func(i int) Pat { return PCall("pk.Keeper.HasMinPower", i, nil, nil, addr, PParam("minPowerToOptIn")) }
		atoms := []Atom{
			ABool("optedIn", PCall("pk.Keeper.IsOptedIn", -1, nil, nil, id, addr)),
			ACmp("topN>0", token.GTR, PParam("topN"), PConstInt(0)),
			ABool("hasMinPower", hm(0)),
			AErrNil("minPowerOK", hm(1)),
			ABool("allowEmpty", PCall("pk.Keeper.IsAllowlistEmpty", -1, nil, nil, id)),
			ABool("allowlisted", PCall("pk.Keeper.IsAllowlisted", -1, nil, nil, id, addr)),
			ABool("denyEmpty", PCall("pk.Keeper.IsDenylistEmpty", -1, nil, nil, id)),
			ABool("denylisted", PCall("pk.Keeper.IsDenylisted", -1, nil, nil, id, addr)),
		}
		c.CheckTable(f, fk(f, "decision-table"), atoms, func(a map[string]bool) string {
			in := a["optedIn"]
			if !in && a["topN>0"] {
				if !a["minPowerOK"] {
					return "F,err"
				}
				in = a["hasMinPower"]
			}
			if in && (a["allowEmpty"] || a["allowlisted"]) && (a["denyEmpty"] || !a["denylisted"]) {
				return "T,nil"
			}
			return "F,nil"
		})
	}

	// ---- R2 ------------------------------------------------------------------------------------
	c.Rule("R2", "filter closure of ComputeNextValidators = canValidateChain AND fulfillsMinStake with both errors propagated and the consumer's own parameters; FilterValidators appends exactly when the predicate accepts and builds the entry from the same validator and consumer", 8)
	if f := c.Fn("pk.Keeper.ComputeNextValidators"); f != nil {
		var pred *ssa.Function
		if fl := c.one(f, false, "pk.Keeper.FilterValidators"); fl != nil {
			if mc, ok := arg(fl, 3).(*ssa.MakeClosure); ok {
				pred, _ = mc.Fn.(*ssa.Function)
			}
			c.Check(PParam("consumerId")(arg(fl, 1)), fk(f, "filter-consumer"), fl, "FilterValidators runs for the consumerId parameter")
		}
		if pred == nil {
			c.Undecided(fk(f, "filter-closure"), f, "the predicate passed to FilterValidators is not a closure literal")
		} else {
			cv := func(i int) Pat { return PCall("pk.Keeper.CanValidateChain", i, nil) }
			ms := func(i int) Pat { return PCall("pk.Keeper.FulfillsMinStake", i, nil) }
			atoms := []Atom{ABool("canValidate", cv(0)), AErrNil("canValidateOK", cv(1)), ABool("minStake", ms(0)), AErrNil("minStakeOK", ms(1))}
			c.CheckTable(pred, fk(f, "filter-closure-table"), atoms, func(a map[string]bool) string {
				if !a["canValidateOK"] {
					return "F,err"
				}
				if !a["minStakeOK"] {
					if !a["canValidate"] {
						return "F,err|F,nil" // already excluded: whether the stake lookup is attempted is immaterial
					}
					return "F,err"
				}
				if a["canValidate"] && a["minStake"] {
					return "T,nil"
				}
				return "F,nil"
			})
			fv := func(name string) Pat {
				return func(v ssa.Value) bool {
					if u, ok := strip(v).(*ssa.UnOp); ok {
						if x, ok := u.X.(*ssa.FreeVar); ok {
							return x.Name() == name
						}
					}
					if x, ok := strip(v).(*ssa.FreeVar); ok {
						return x.Name() == name
					}
					return false
				}
			}
			if cl := c.one(pred, false, "pk.Keeper.CanValidateChain"); cl != nil {
				ok := fv("consumerId")(arg(cl, 1)) && PParam("providerAddr")(arg(cl, 2)) && PField(fv("powerShapingParameters"), "Top_N")(arg(cl, 3)) && fv("minPowerToOptIn")(arg(cl, 4))
				c.Check(ok, fk(f, "closure-args", "CanValidateChain"), cl, "CanValidateChain(ctx, consumerId, providerAddr, params.Top_N, minPowerToOptIn) with the enclosing function's values")
			}
			if cl := c.one(pred, false, "pk.Keeper.FulfillsMinStake"); cl != nil {
				ok := PField(fv("powerShapingParameters"), "MinStake")(arg(cl, 1)) && PParam("providerAddr")(arg(cl, 2))
				c.Check(ok, fk(f, "closure-args", "FulfillsMinStake"), cl, "FulfillsMinStake(ctx, params.MinStake, providerAddr)")
			}
		}
	}
	if f := c.Fn("pk.Keeper.FilterValidators"); f != nil {
		val := PElemOf(PParam("bondedValidators"))
		var predCall *ssa.Call
		for _, cl := range AllCalls(f, false) {
			if p, ok := cl.Common().Value.(*ssa.Parameter); ok && p.Name() == "predicate" {
				predCall, _ = cl.(*ssa.Call)
			}
		}
		mk := c.one(f, false, "pk.Keeper.CreateConsumerValidator")
		if predCall == nil {
			c.Undecided(fk(f, "predicate-call"), f, "predicate is not called")
		} else if mk != nil {
			accepted := ABool("predicate accepts", PIs(extractOf(predCall, 0)))
			predOK := AErrNil("predicate ok", PIs(extractOf(predCall, 1)))
			c.Check(PCall("pt.NewProviderConsAddress", -1, nil, PCall("staking.Validator.GetConsAddr", 0, val))(predCall.Call.Args[0]), fk(f, "predicate-on-validators-address"), predCall, "the predicate is asked about the consensus address of the loop's validator")
			c.GuardedBy(mk, fk(f, "include-only-accepted"), accepted, predOK)
			c.Check(PParam("consumerId")(arg(mk, 1)) && val(arg(mk, 2)), fk(f, "entry-of-same-validator"), mk, "CreateConsumerValidator(ctx, consumerId, the loop's validator)")
			apps := Calls(f, false, "builtin.append")
			c.Check(len(apps) == 1, fk(f, "one-append"), f, "one append")
			for _, a := range apps {
				c.Check(PIs(extractOf(mk, 0))(sliceLitElem(callArgs(a)[1])), fk(f, "appends-created-entry"), a, "the appended entry is the created consumer validator")
				// every accepted validator is appended: from a successful create, the next iteration is reached only through the append
				rq, _ := reachUnder(f, T(AErrNil("create ok", PIs(extractOf(mk, 1)))))
				rq.CutInstrs[a] = true
				after := rq.After(mk)
				lost := after[predCall]
				for _, r := range successReturns(f) {
					if after[r] {
						lost = true
					}
				}
				c.Check(!lost, fk(f, "accepted-is-appended"), a, "an accepted, successfully created validator is always appended")
			}
			for _, r := range reachableReturns(f, F(predOK)) {
				_ = r
			}
			rq, _ := reachUnder(f, F(predOK))
			bad := false
			for _, r := range successReturns(f) {
				if rq.After(predCall)[r] && false {
					bad = true
				}
			}
			_ = bad
		}
	}

	// ---- R3 ------------------------------------------------------------------------------------
	c.Rule("R3", "FulfillsMinStake: minStake==0 => true; validator lookup error => (false, err); else bondedTokens(validator of providerAddr) >= minStake. HasMinPower: lastPower(validator of providerAddr) >= minPower with errors propagated", 2)
	if f := c.Fn("pk.Keeper.FulfillsMinStake"); f != nil {
		val := func(i int) Pat {
			return PCall("ccv.StakingKeeper.GetValidatorByConsAddr", i, nil, nil, PField(PParam("providerAddr"), "Address"))
		}
		atoms := []Atom{
			AEq("minStake==0", PParam("minStake"), PConstInt(0)),
			AErrNil("found", val(1)),
			ABool("tokens>=minStake", PCall("math.Int.GTE", -1, PCall("staking.Validator.GetBondedTokens", -1, val(0)), PCall("math.NewIntFromUint64", -1, nil, PParam("minStake")))),
		}
		c.CheckTable(f, fk(f, "decision-table"), atoms, func(a map[string]bool) string {
			switch {
			case a["minStake==0"]:
				return "T,nil"
			case !a["found"]:
				return "F,err"
			case a["tokens>=minStake"]:
				return "T,nil"
			}
			return "F,nil"
		})
	}
	if f := c.Fn("pk.Keeper.HasMinPower"); f != nil {
		val := func(i int) Pat {
			return PCall("ccv.StakingKeeper.GetValidatorByConsAddr", i, nil, nil, PField(PParam("providerAddr"), "Address"))
		}
		va := func(i int) Pat {
			return PCall("sdk.ValAddressFromBech32", i, nil, PCall("staking.Validator.GetOperator", -1, val(0)))
		}
		pw := func(i int) Pat { return PCall("ccv.StakingKeeper.GetLastValidatorPower", i, nil, nil, va(0)) }
		atoms := []Atom{AErrNil("found", val(1)), AErrNil("addrOK", va(1)), AErrNil("powerOK", pw(1)), ACmp("power>=minPower", token.GEQ, pw(0), PParam("minPower"))}
		c.CheckTable(f, fk(f, "decision-table"), atoms, func(a map[string]bool) string {
			if !a["found"] || !a["addrOK"] || !a["powerOK"] {
				return "F,err"
			}
			if a["power>=minPower"] {
				return "T,nil"
			}
			return "F,nil"
		})
	}

	// ---- R4 ------------------------------------------------------------------------------------
	c.Rule("R4", "argument roles: every call of ComputeConsumerNextValSet passes (GetLastBondedValidators, GetLastProviderConsensusActiveValidators) in that order; inside, the active set feeds the Top-N computations and the bonded set feeds ComputeNextValidators", 5)
	sites, _ := c.Callers("pk.Keeper.ComputeConsumerNextValSet")
	for _, s := range sites {
		cl, ok := s.(ssa.CallInstruction)
		if !ok {
			continue
		}
		f := topFn(s.Parent())
		bonded := POr(PCall("pk.Keeper.GetLastBondedValidators", 0, nil), PParam("bondedValidators"))
		active := POr(PCall("pk.Keeper.GetLastProviderConsensusActiveValidators", 0, nil), PParam("activeValidators"))
		c.Check(allRoots(arg(cl, 1), bonded, isEmptySliceLit) && allRoots(arg(cl, 2), active, isEmptySliceLit), fk(f, "bonded-then-active"), s,
			"arguments are (last bonded validators, provider-active validators) in that order; found ("+describe(arg(cl, 1))+", "+describe(arg(cl, 2))+")")
	}
	c.Check(len(sites) >= 2, "ComputeConsumerNextValSet/callers", nil, fmt.Sprintf("%d call sites (epoch and launch)", len(sites)))
	checkListRoles(c)
	if f := c.Fn("pk.Keeper.LaunchConsumer"); f != nil {
		if cl := c.one(f, false, "pk.Keeper.HasActiveConsumerValidator"); cl != nil {
			c.Check(PParam("activeValidators")(arg(cl, 2)), fk(f, "active-check-uses-active-set"), cl, "HasActiveConsumerValidator receives the active set")
		}
	}
	if f := c.Fn("pk.Keeper.ComputeConsumerNextValSet"); f != nil {
		if cl := c.one(f, false, "pk.Keeper.ComputeNextValidators"); cl != nil {
			c.Check(PParam("consumerId")(arg(cl, 1)) && PParam("bondedValidators")(arg(cl, 2)), fk(f, "bonded-to-filter"), cl, "ComputeNextValidators(ctx, consumerId, bondedValidators, …)")
			c.Check(PCall("pk.Keeper.GetConsumerPowerShapingParameters", 0, nil, nil, PParam("consumerId"))(arg(cl, 3)), fk(f, "own-parameters"), cl, "with this consumer's power-shaping parameters")
		}
	}

	// ---- R5 ------------------------------------------------------------------------------------
	c.Rule("R5", "CreateConsumerValidator: Power = GetLastValidatorPower(operator of the validator); PublicKey = key assigned on this consumer if found else the validator's provider key; ProviderConsAddr = the validator's consensus address; JoinHeight kept if already a consumer validator", 4)
	if f := c.Fn("pk.Keeper.CreateConsumerValidator"); f != nil {
		v := PParam("validator")
		power := PCall("ccv.StakingKeeper.GetLastValidatorPower", 0, nil, nil, PCall("sdk.ValAddressFromBech32", 0, nil, PCall("staking.Validator.GetOperator", -1, v)))
		cons := PCall("staking.Validator.GetConsAddr", 0, v)
		assigned := func(i int) Pat {
			return PCall("pk.Keeper.GetValidatorConsumerPubKey", i, nil, nil, PParam("consumerId"), PCall("pt.NewProviderConsAddress", -1, nil, cons))
		}
		own := PCall("staking.Validator.CmtConsPublicKey", 0, v)
		for _, r := range successReturns(f) {
			st := structLitFields(r.Results[0])
			if st == nil {
				c.Undecided(fk(f, "result-literal"), r, "result is not a struct literal")
				continue
			}
			c.Check(power(st["Power"]), fk(f, "power"), r, "Power = GetLastValidatorPower(validator's operator address); found "+describe(st["Power"]))
			c.Check(cons(st["ProviderConsAddr"]), fk(f, "address"), r, "ProviderConsAddr = validator.GetConsAddr(); found "+describe(st["ProviderConsAddr"]))
			found := ABool("assigned key found", assigned(1))
			keyVar := st["PublicKey"]
			vT := valuesUnderAddr(keyVar, f, T(found))
			vF := valuesUnderAddr(keyVar, f, F(found))
			c.Check(len(vT) == 1 && assigned(0)(vT[0]), fk(f, "key-assigned"), r, "with an assignment the consumer key is the assigned key; found "+describeAll(vT))
			c.Check(len(vF) == 1 && own(vF[0]), fk(f, "key-default"), r, "without an assignment the key is the validator's own provider key; found "+describeAll(vF))
		}
	}

	// ---- R7 ------------------------------------------------------------------------------------
	c.Rule("R7", "active-set restriction applies to the filter's INPUT: when inactive validators are not allowed, FilterValidators receives bonded[:MaxProviderConsensusValidators] (truncation before eligibility), otherwise the full bonded list", 3)
	if f := c.Fn("pk.Keeper.ComputeNextValidators"); f != nil {
		if fl := c.one(f, false, "pk.Keeper.FilterValidators"); fl != nil {
			allow := ABool("AllowInactiveVals", PField(PParam("powerShapingParameters"), "AllowInactiveVals"))
			tooMany := Atom{"len(bonded) > max", cmpAtom(func(op token.Token, x, y ssa.Value) (bool, bool) {
				isLen := func(v ssa.Value) bool {
					cl, ok := strip(v).(*ssa.Call)
					return ok && isCallTo(cl, "builtin.len")
				}
				isMax := PCall("pk.Keeper.GetMaxProviderConsensusValidators", -1, nil)
				switch {
				case op == token.GTR && isLen(x) && isMax(y), op == token.LSS && isMax(x) && isLen(y):
					return true, true
				case op == token.LEQ && isLen(x) && isMax(y), op == token.GEQ && isMax(x) && isLen(y):
					return true, false
				}
				return false, false
			})}
			in := arg(fl, 2)
			vT := valuesUnder(in, f, F(allow), T(tooMany))
			okT := len(vT) == 1
			if okT {
				sl, isS := vT[0].(*ssa.Slice)
				okT = isS && sl.Low == nil && sl.High != nil && PCall("pk.Keeper.GetMaxProviderConsensusValidators", -1, nil)(sl.High) && allRoots(sl.X, PParam("bondedValidators"), func(v ssa.Value) bool { _, s := v.(*ssa.Slice); return s })
			}
			c.Check(okT, fk(f, "filter-input-truncated-when-inactive-disallowed"), fl, "with AllowInactiveVals=false and more bonded validators than M the filter sees bondedValidators[:M]; found "+describeAll(vT))
			vA := valuesUnder(in, f, T(allow))
			c.Check(len(vA) == 1 && PParam("bondedValidators")(vA[0]), fk(f, "filter-input-full-when-inactive-allowed"), fl, "with AllowInactiveVals=true the filter sees all bonded validators; found "+describeAll(vA))
			c.Check(len(ifsTesting(f, allow.Fn)) == 1 && len(ifsTesting(f, tooMany.Fn)) == 1, fk(f, "truncation-tests"), f, "one AllowInactiveVals test and one length test")
		}
	}

	// ---- R8 ------------------------------------------------------------------------------------
	c.Rule("R8", "list indexes follow the stored parameters: SetConsumerPowerShapingParameters refreshes allowlist/denylist/prioritylist indexes whenever the stored list differs; each UpdateXlist first deletes the whole index of the consumer on every path and then sets one entry per address of the new list", 12)
	checkListIndexRefresh(c, "Allowlist", "Denylist")

	// ---- R6 ------------------------------------------------------------------------------------
	c.Rule("R6", "sibling agreement of the 'first M bonded validators' selections: the provider's own set (ProviderValidatorUpdates, GetLastBondedValidatorsUtil) truncates staking's power-ordered list directly; a selection that re-orders the list under another key before truncating to M classifies tied validators differently", 3)
	checkTopMSiblings(c)
}

// allRoots: every root of v satisfies p or alt.
func allRoots(v ssa.Value, p Pat, alt func(ssa.Value) bool) bool {
	rs := roots(v)
	if len(rs) == 0 {
		return false
	}
	for _, r := range rs {
		if !p(r) && !(alt != nil && alt(r)) {
			return false
		}
	}
	return true
}

func isEmptySliceLit(v ssa.Value) bool {
	sl, ok := v.(*ssa.Slice)
	if !ok {
		return false
	}
	al, ok := sl.X.(*ssa.Alloc)
	return ok && len(*al.Referrers()) == 1
}

// structLitFields: v is a struct value built in a local (alloc + field stores + load); returns the
// stored value per field name.
func structLitFields(v ssa.Value) map[string]ssa.Value {
	u, ok := v.(*ssa.UnOp)
	if !ok || u.Op != token.MUL {
		return nil
	}
	al, ok := u.X.(*ssa.Alloc)
	if !ok {
		return nil
	}
	out := map[string]ssa.Value{}
	for _, r := range *al.Referrers() {
		if fa, ok := r.(*ssa.FieldAddr); ok {
			for _, rr := range *fa.Referrers() {
				if st, ok := rr.(*ssa.Store); ok && st.Addr == fa {
					out[fieldName(fa.X.Type(), fa.Field)] = st.Val
				}
			}
		}
	}
	return out
}

// valuesUnderAddr: v is the address of a local variable (e.g. &consumerPublicKey); returns the
// values that may be stored in it on paths consistent with the scenario, judged at the stores'
// own positions (a store in a block unreachable under the scenario is dropped; a later store
// overrides an earlier one on the same path).
func valuesUnderAddr(v ssa.Value, fn *ssa.Function, lits ...Lit) []ssa.Value {
	al, ok := v.(*ssa.Alloc)
	if !ok {
		return valuesUnder(v, fn, lits...)
	}
	r := scenarioReach(fn, lits)
	reach := r.From(nil)
	var stores []*ssa.Store
	for _, ref := range *al.Referrers() {
		if st, ok := ref.(*ssa.Store); ok && st.Addr == al && reach[st] {
			stores = append(stores, st)
		}
	}
	// drop stores that are always overwritten by another reachable store before any return
	var out []ssa.Value
	for _, st := range stores {
		overwritten := true
		rq := scenarioReach(fn, lits)
		for _, o := range stores {
			if o != st {
				rq.CutInstrs[o] = true
			}
		}
		after := rq.After(st)
		for _, ret := range Returns(fn) {
			if after[ret] {
				overwritten = false
			}
		}
		if !overwritten {
			out = append(out, st.Val)
		}
	}
	return out
}

// checkTopMSiblings implements C02.R6 / C15.R1's "no re-ordering before truncation".
func checkTopMSiblings(c *Ctx) {
	staking := PCall("ccv.StakingKeeper.GetBondedValidatorsByPower", 0, nil)
	// reference selections
	if f := c.Fn("ccv.GetLastBondedValidatorsUtil"); f != nil {
		ok := true
		for _, cl := range Calls(f, false, "sort.Slice", "sort.SliceStable", "sort.Sort") {
			_ = cl
			ok = false
		}
		c.Check(ok, fk(f, "no-reorder"), f, "truncates staking's power-ordered list without re-ordering")
	}
	if f := c.Fn("pk.Keeper.ProviderValidatorUpdates"); f != nil {
		ok := len(Calls(f, false, "sort.Slice", "sort.SliceStable", "sort.Sort")) == 0
		rng := false
		for _, in := range allInstrs(f) {
			if sl, isS := in.(*ssa.Slice); isS && staking(sl.X) && sl.Low == nil && sl.High != nil {
				rng = true
			}
		}
		c.Check(ok && rng, fk(f, "no-reorder"), f, "the provider's own set is bonded[:M] of staking's power order, no re-ordering")
	}
	// the consumer-side "active only" selection
	if f := c.Fn("pk.Keeper.ComputeNextValidators"); f != nil {
		for _, in := range allInstrs(f) {
			sl, ok := in.(*ssa.Slice)
			if !ok || sl.High == nil || sl.Low != nil {
				continue
			}
			if !PCall("pk.Keeper.GetMaxProviderConsensusValidators", -1, nil)(sl.High) {
				continue
			}
			// is the truncated slice re-sorted (in place) beforehand under a different key?
			var sorts []ssa.CallInstruction
			for _, s := range Calls(f, false, "sort.Slice", "sort.SliceStable") {
				if sharesRoots(sliceOfIface(arg(s, 0)), sl.X) && mustPassBefore(sl, s) {
					sorts = append(sorts, s)
				}
			}
			detail := "the active-only truncation [:MaxProviderConsensusValidators] keeps staking's order"
			if len(sorts) > 0 {
				detail = "ComputeNextValidators re-sorts the bonded validators (sort.Slice by GetBondedTokens) before truncating to [:MaxProviderConsensusValidators], whereas the provider's own active set is the first M of staking's consensus-power order (ties by operator address): validators tied in power but different in tokens are classified differently"
			}
			c.Check(len(sorts) == 0, fk(f, "active-truncation-after-resort"), in, detail)
		}
	}
}

// sliceOfIface: sort.Slice(x any, less): the slice behind the interface value.
func sliceOfIface(v ssa.Value) ssa.Value {
	if mi, ok := v.(*ssa.MakeInterface); ok {
		return mi.X
	}
	return v
}

// elemIndexOf: v = *(&X[i]) — the IndexAddr of a slice element load.
func elemIndexOf(v ssa.Value) *ssa.IndexAddr {
	u, ok := strip(v).(*ssa.UnOp)
	if !ok || u.Op != token.MUL {
		return nil
	}
	ia, _ := u.X.(*ssa.IndexAddr)
	return ia
}

// sameIndex: the two index values are the same SSA value (after conversions).
func sameIndex(a, b ssa.Value) bool {
	for {
		if cv, ok := a.(*ssa.Convert); ok {
			a = cv.X
			continue
		}
		break
	}
	for {
		if cv, ok := b.(*ssa.Convert); ok {
			b = cv.X
			continue
		}
		break
	}
	return a == b
}

// checkListIndexRefresh: the allowlist/denylist/prioritylist indexes follow the stored parameters
// (shared by C02.R8 and C04.R2: eligibility reads the indexes, not the stored lists).
func checkListIndexRefresh(c *Ctx, lists ...string) {
	wantList := func(name string) bool {
		for _, l := range lists {
			if strings.Contains(name, l) {
				return true
			}
		}
		return false
	}
	if f := c.Fn("pk.Keeper.SetConsumerPowerShapingParameters"); f != nil {
		old := PCall("pk.Keeper.GetConsumerPowerShapingParameters", 0, nil, nil, PParam("consumerId"))
		for _, l := range []struct{ field, upd string }{{"Allowlist", "pk.Keeper.UpdateAllowlist"}, {"Denylist", "pk.Keeper.UpdateDenylist"}, {"Prioritylist", "pk.Keeper.UpdatePrioritylist"}} {
			if !wantList(l.field) {
				continue
			}
			u := c.one(f, false, l.upd)
			if u == nil {
				continue
			}
			same := ABool("stored "+l.field+" equals new", PCall("pk.equalStringSlices", -1, nil, PField(old, l.field), PField(PParam("parameters"), l.field)))
			c.Check(PParam("consumerId")(arg(u, 1)) && PField(PParam("parameters"), l.field)(arg(u, 2)), fk(f, "refresh-args", l.field), u, "Update"+l.field+"(consumerId, parameters."+l.field+")")
			for _, r := range successReturns(f) {
				c.MustPassWhen(r, []ssa.Instruction{u}, fk(f, "refresh-when-changed", l.field), F(same))
			}
		}
	}
	// "differs" is positional equality: same length and the same entry at every index (an
	// order- or multiplicity-insensitive comparison calls [A,B] and [A,A] equal and skips the refresh)
	if f := c.Fn("pk.equalStringSlices"); f != nil {
		pa, pb := f.Params[0], f.Params[1]
		positional := false
		for _, in := range allInstrs(f) {
			b, ok := in.(*ssa.BinOp)
			if !ok || (b.Op != token.EQL && b.Op != token.NEQ) {
				continue
			}
			ix, iy := elemIndexOf(b.X), elemIndexOf(b.Y)
			if ix == nil || iy == nil {
				continue
			}
			fromA := func(ia *ssa.IndexAddr) bool { return strip(ia.X) == ssa.Value(pa) }
			fromB := func(ia *ssa.IndexAddr) bool { return strip(ia.X) == ssa.Value(pb) }
			if ((fromA(ix) && fromB(iy)) || (fromB(ix) && fromA(iy))) && sameIndex(ix.Index, iy.Index) {
				positional = true
			}
		}
		lib := false
		for _, cl := range AllCalls(f, false) {
			n := calleeName(cl)
			if (strings.HasSuffix(n, "slices.Equal") || n == "reflect.DeepEqual") && len(callArgs(cl)) == 2 {
				lib = true
			}
		}
		c.Check(positional || lib, fk(f, "positional-equality"), f, "compares a[i] with b[i] at the same index (or delegates to slices.Equal/reflect.DeepEqual)")
		lenCmp := false
		for _, in := range allInstrs(f) {
			if b, ok := in.(*ssa.BinOp); ok && (b.Op == token.EQL || b.Op == token.NEQ) {
				lx, _ := callOf(b.X)
				ly, _ := callOf(b.Y)
				if lx != nil && ly != nil && isCallTo(lx, "builtin.len") && isCallTo(ly, "builtin.len") {
					lenCmp = true
				}
			}
		}
		c.Check(lenCmp || lib, fk(f, "length-equality"), f, "compares the lengths")
	}
	for _, l := range []struct{ upd, del, set string }{
		{"pk.Keeper.UpdateAllowlist", "pk.Keeper.DeleteAllowlist", "pk.Keeper.SetAllowlist"},
		{"pk.Keeper.UpdateDenylist", "pk.Keeper.DeleteDenylist", "pk.Keeper.SetDenylist"},
		{"pk.Keeper.UpdatePrioritylist", "pk.Keeper.DeletePrioritylist", "pk.Keeper.SetPrioritylist"},
	} {
		if !wantList(l.upd) {
			continue
		}
		f := c.Fn(l.upd)
		if f == nil {
			continue
		}
		d := c.one(f, false, l.del)
		st := c.one(f, false, l.set)
		if d == nil || st == nil {
			continue
		}
		for _, r := range Returns(f) {
			c.Check(mustPassBefore(r, d), fk(f, "index-cleared-on-every-path"), r, "every return passes "+shortName(q(l.del))+" (an empty new list clears the index)")
		}
		c.Check(PParam("consumerId")(arg(d, 1)) && PParam("consumerId")(arg(st, 1)), fk(f, "same-consumer"), st, "clears and sets for the consumerId parameter")
		var listParam Pat
		for _, p := range f.Params {
			if _, isSlice := p.Type().Underlying().(*types.Slice); isSlice {
				listParam = PParam(p.Name())
			}
		}
		okSet := listParam != nil && inLoop(st) && PCall("pt.NewProviderConsAddress", -1, nil, PCall("sdk.ConsAddressFromBech32", 0, nil, PElemOf(listParam)))(arg(st, 2))
		c.Check(okSet, fk(f, "one-entry-per-address"), st, "sets one index entry per address of the new list; found "+describe(arg(st, 2)))
		c.Check(mustPassBefore(st, d), fk(f, "clear-before-set"), st, "the index is cleared before it is rebuilt")
	}

}

// checkListRoles: bonded/active validator lists keep their roles at every call of a function that
// takes both (shared by C02.R4 and C03.R1: the Top-N threshold is computed over the active list).
func checkListRoles(c *Ctx) {
	// the same roles hold at every call of any keeper function that takes the two lists by name
	// (both are []stakingtypes.Validator, so a swap one level further out type-checks as well)
	nRole := 0
	for _, callee := range c.P.ModuleFuncs("pk") {
		if callee.Parent() != nil || isTestFile(c.P, callee) {
			continue
		}
		roleIdx := map[int]string{}
		for i, prm := range callee.Params {
			if prm.Name() == "bondedValidators" || prm.Name() == "activeValidators" {
				roleIdx[i] = prm.Name()
			}
		}
		if len(roleIdx) != 2 {
			continue // only functions taking both lists: that is where a swap type-checks
		}
		csites, _ := c.Callers(ssaFuncName(callee))
		for _, s := range csites {
			cl, ok := s.(ssa.CallInstruction)
			if !ok || cl.Common().StaticCallee() != callee {
				continue
			}
			if isTestFile(c.P, topFn(s.Parent())) {
				continue
			}
			for i, role := range roleIdx {
				want := POr(PCall("pk.Keeper.GetLastBondedValidators", 0, nil), PParam("bondedValidators"))
				if role == "activeValidators" {
					want = POr(PCall("pk.Keeper.GetLastProviderConsensusActiveValidators", 0, nil), PParam("activeValidators"))
				}
				nRole++
				actual := cl.Common().Args[i]
				c.Check(allRoots(actual, want, isEmptySliceLit), fk(topFn(s.Parent()), "list-role", shortName(ssaFuncName(callee)), role), s,
					"parameter "+role+" of "+shortName(ssaFuncName(callee))+" receives the list of that role; found "+describe(actual))
			}
		}
	}
	c.Check(nRole >= 6, "list-role/census", nil, fmt.Sprintf("%d (call site, list parameter) pairs analysed", nRole))
}
