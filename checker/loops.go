package main

// Natural loops and their exits: "the loop visits every element" is decided structurally — the
// only edge leaving the loop starts at the loop header's own condition (the range/iterator test),
// apart from listed exit kinds (panic, definite error return, a stated constant result).

import (
	"fmt"
	"sort"
	"strings"

	"golang.org/x/tools/go/ssa"
)

type loopInfo struct {
	Header *ssa.BasicBlock
	Blocks map[*ssa.BasicBlock]bool
}

// innermostLoop: the smallest natural loop (back edge u->h with h dominating u) containing b.
func innermostLoop(b *ssa.BasicBlock) *loopInfo {
	fn := b.Parent()
	var best *loopInfo
	byHeader := map[*ssa.BasicBlock]*loopInfo{}
	for _, u := range fn.Blocks {
		for _, h := range u.Succs {
			if !h.Dominates(u) {
				continue
			}
			li := byHeader[h]
			if li == nil {
				li = &loopInfo{Header: h, Blocks: map[*ssa.BasicBlock]bool{h: true}}
				byHeader[h] = li
			}
			// nodes that reach u without passing h
			work := []*ssa.BasicBlock{u}
			for len(work) > 0 {
				n := work[len(work)-1]
				work = work[:len(work)-1]
				if li.Blocks[n] {
					continue
				}
				li.Blocks[n] = true
				work = append(work, n.Preds...)
			}
		}
	}
	for _, li := range byHeader {
		if li.Blocks[b] && (best == nil || len(li.Blocks) < len(best.Blocks)) {
			best = li
		}
	}
	return best
}

// exits: edges leaving the loop, in block order.
func (l *loopInfo) exits() []edge {
	var out []edge
	for b := range l.Blocks {
		for _, s := range b.Succs {
			if !l.Blocks[s] {
				out = append(out, edge{b, s})
			}
		}
	}
	sort.Slice(out, func(i, j int) bool {
		if out[i].from.Index != out[j].from.Index {
			return out[i].from.Index < out[j].from.Index
		}
		return out[i].to.Index < out[j].to.Index
	})
	return out
}

// exitOK classifies where an early exit edge leads.
type exitOK func(target *ssa.BasicBlock) bool

// leadsOnlyToPanic: every path from b ends in a panic (no return reachable).
func leadsOnlyToPanic(b *ssa.BasicBlock) bool {
	if len(b.Instrs) == 0 {
		return false
	}
	reach := NewReach(b.Parent()).From(b.Instrs[0])
	for in := range reach {
		if _, ok := in.(*ssa.Return); ok {
			return false
		}
	}
	return true
}

// leadsOnlyToErrorReturn: every return reachable from b without re-entering the loop is a definite error.
func leadsOnlyToErrorReturn(b *ssa.BasicBlock) bool {
	if len(b.Instrs) == 0 {
		return false
	}
	reach := NewReach(b.Parent()).From(b.Instrs[0])
	n := 0
	for in := range reach {
		if r, ok := in.(*ssa.Return); ok {
			n++
			if len(r.Results) == 0 || !definitelyError(r, r.Results[len(r.Results)-1]) {
				return false
			}
		}
	}
	return true
}

// leadsOnlyToConstBoolReturn: the edge's target returns the given constant without further work.
func leadsOnlyToConstBoolReturn(want bool) exitOK {
	return func(b *ssa.BasicBlock) bool {
		if len(b.Instrs) == 0 {
			return false
		}
		reach := NewReach(b.Parent()).From(b.Instrs[0])
		n := 0
		for in := range reach {
			if r, ok := in.(*ssa.Return); ok {
				n++
				if len(r.Results) == 0 {
					return false
				}
				v, ok := constBool(r.Results[0])
				if !ok || v != want {
					return false
				}
			}
		}
		return n > 0
	}
}

// VisitsAll checks that the innermost loop around `in` leaves only through its header's own test,
// or through exits accepted by one of `allowed`.
func (c *Ctx) VisitsAll(in ssa.Instruction, key, what string, allowed ...exitOK) bool {
	l := innermostLoop(in.Block())
	if l == nil {
		c.Check(false, key, in, what+": the instruction is not inside a loop")
		return false
	}
	var early []edge
	for _, e := range l.exits() {
		if e.from == l.Header {
			continue
		}
		ok := leadsOnlyToPanic(e.to)
		for _, a := range allowed {
			ok = ok || a(e.to)
		}
		if !ok {
			early = append(early, e)
		}
	}
	if len(early) == 0 {
		c.Check(true, key, in, fmt.Sprintf("%s: the loop (%d blocks) is left only through its own range/iterator test or through accepted exits", what, len(l.Blocks)))
		return true
	}
	last := early[0].from.Instrs[len(early[0].from.Instrs)-1]
	c.Check(false, key, last, fmt.Sprintf("%s: the loop can be left early (branch at %s leaves the loop before all elements are visited)", what, c.P.InstrPos(last)))
	return false
}

// earlyExitLoops: the hand-written functions under x/ whose loops are meant to stop before the end
// of the collection (census `icsverif loops`: 16 functions on the pinned tree), each confirmed by
// reading. Every other loop of a function a property's rules rely on must visit every element.
var earlyExitLoops = map[string]string{
	"ck.Keeper.SendPackets":                     "FIFO sending stops at the first packet that may not be sent or fails to send",
	"ck.Keeper.TrackHistoricalInfo":             "prunes backwards until the first missing entry (as in staking)",
	"pk.Keeper.ConsumeIdsFromTimeQueue":         "bounded consumption: stops at the first future timestamp and at the limit",
	"pk.Keeper.HasActiveConsumerValidator":      "existential search",
	"pk.Keeper.removeConsumerIdFromTime":        "index search",
	"pk.Keeper.hasToValidate":                   "existential search",
	"pk.Keeper.GetConsumerInfractionUpdateTime": "search for the consumer's schedule entry, returns at the hit",
	"pk.StakingKeeperEquivalenceInvariant$1":    "invariant reports the first mismatch",
	"pk.Keeper.ValidatorConsensusKeyInUse":      "existential search (exit shape decided by C05.R4)",
	"pk.Keeper.ComputeMinPowerInTopN":           "threshold search over validators sorted by power",
	"pk.equalStringSlices":                      "first difference decides",
	"pk.Keeper.SendVSCPacketsToChain":           "in-order sending stops at the first failed send",
	"pt.TruncateString":                         "stops at the byte limit",
	"ccv.extractPathAndBaseFromFullDenom":       "stops at the first non-channel path element",
}

func earlyExitReason(fn *ssa.Function) (string, bool) {
	n := ssaFuncName(topFn(fn))
	if fn.Parent() != nil {
		n = ssaFuncName(fn)
	}
	for k, v := range earlyExitLoops {
		if q(k) == n {
			return v, true
		}
	}
	return "", false
}

// traversalRule: every loop of every function this property's rules looked at (c.Fn) is left only
// through its own test, a panic or a definite error return, unless the function is in the table.
func (c *Ctx) traversalRule() {
	if len(c.touched) == 0 {
		return
	}
	c.Rule("RL", "traversal completeness: in every function the rules above rely on, each loop visits every element (left only through its range/iterator test, a panic or an error return); intended early-exit loops are a fixed table with reasons", 0)
	var fns []*ssa.Function
	for f := range c.touched {
		fns = append(fns, f)
	}
	sort.Slice(fns, func(i, j int) bool { return ssaFuncName(fns[i]) < ssaFuncName(fns[j]) })
	for _, top := range fns {
		all := append([]*ssa.Function{top}, allAnon(top)...)
		for _, fn := range all {
			var headers []*ssa.BasicBlock
			seen := map[*ssa.BasicBlock]*loopInfo{}
			for _, b := range fn.Blocks {
				if l := innermostLoop(b); l != nil && seen[l.Header] == nil {
					seen[l.Header] = l
					headers = append(headers, l.Header)
				}
			}
			sort.Slice(headers, func(i, j int) bool { return headers[i].Index < headers[j].Index })
			for i, h := range headers {
				l := seen[h]
				// the provider and consumer keepers share short names (keeper.Keeper.InitGenesis):
				// qualify with the module directory
				side := ""
				switch {
				case strings.Contains(fnPkgPath(top), "/x/ccv/provider"):
					side = "provider:"
				case strings.Contains(fnPkgPath(top), "/x/ccv/consumer"):
					side = "consumer:"
				}
				key := side + fk(top, "loop", fmt.Sprint(i))
				if fn != top {
					key = side + fk(top, shortName(ssaFuncName(fn)), "loop", fmt.Sprint(i))
				}
				var early *edge
				for _, e := range l.exits() {
					e := e
					if e.from == l.Header || leadsOnlyToPanic(e.to) || leadsOnlyToErrorReturn(e.to) {
						continue
					}
					early = &e
					break
				}
				first := h.Instrs[len(h.Instrs)-1]
				switch {
				case early == nil:
					c.Check(true, key, first, "visits every element")
				default:
					if why, ok := earlyExitReason(fn); ok {
						c.Check(true, key, first, "early exit accepted: "+why)
					} else {
						last := early.from.Instrs[len(early.from.Instrs)-1]
						c.Check(false, key, last, "the loop can be left before all elements are visited (neither its own test, nor a panic, nor an error return), and the function is not in the early-exit table")
					}
				}
			}
		}
	}
}

func allAnon(f *ssa.Function) []*ssa.Function {
	var out []*ssa.Function
	for _, a := range f.AnonFuncs {
		out = append(out, a)
		out = append(out, allAnon(a)...)
	}
	return out
}

// everyIteration: within the innermost loop around `in`, every iteration that returns to the loop
// header has executed `in` (iterations that panic or leave the function are not counted).
func everyIteration(in ssa.Instruction) bool {
	l := innermostLoop(in.Block())
	if l == nil {
		return false
	}
	hdr := l.Header.Instrs[len(l.Header.Instrs)-1]
	rq := NewReach(in.Parent())
	rq.CutInstrs[in] = true
	return !rq.After(hdr)[hdr]
}

// checkCollectors: a GetAll* accessor returns every entry it visits — its append runs on every
// iteration of its loop (the one designed filter, GetAllActiveConsumerIds, is decided by C05.R4).
func checkCollectors(c *Ctx, pkg string, names ...string) {
	for _, n := range names {
		f := c.Fn(pkg + ".Keeper." + n)
		if f == nil {
			continue
		}
		k := 0
		for _, a := range Calls(f, false, "builtin.append") {
			if !inLoop(a) {
				continue
			}
			k++
			c.Check(everyIteration(a), fk(f, "collects-every-entry"), a, n+" appends on every iteration of its loop (no entry is skipped)")
		}
		c.Check(k > 0, fk(f, "collects-every-entry", "census"), f, fmt.Sprintf("%d collecting appends in %s", k, n))
	}
}
