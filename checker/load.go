package main

import (
	"fmt"
	"go/token"
	"go/types"
	"os"
	"sort"
	"strings"

	"golang.org/x/tools/go/packages"
	"golang.org/x/tools/go/ssa"
	"golang.org/x/tools/go/ssa/ssautil"
)

const modPath = "github.com/cosmos/interchain-security/v7"

// Prog is the loaded, type-checked and SSA-built repository.
type Prog struct {
	Fset      *token.FileSet
	Pkgs      []*packages.Package
	SSA       *ssa.Program
	SSAPkgs   map[string]*ssa.Package // by import path
	NumFuncs  int
	AllFuncs  map[*ssa.Function]bool
	Dir       string
	funcIndex map[string]*ssa.Function
	cidx      *callIndex
}

// Load type-checks ./x/... and ./app/... of the repository at dir with the real build configuration
// and builds SSA. overlay (optional) replaces file contents in memory (self-test variants).
func Load(dir string, overlay map[string][]byte) (*Prog, error) {
	env := []string{}
	for _, e := range os.Environ() {
		k := strings.SplitN(e, "=", 2)[0]
		switch k {
		case "GOFLAGS", "GOPROXY", "GOWORK", "GOTOOLCHAIN", "GOSUMDB":
			continue
		}
		env = append(env, e)
	}
	env = append(env, "GOFLAGS=-mod=mod", "GOPROXY=off", "GOWORK=off", "GOTOOLCHAIN=auto")
	cfg := &packages.Config{
		Mode: packages.NeedName | packages.NeedFiles | packages.NeedCompiledGoFiles | packages.NeedImports |
			packages.NeedTypes | packages.NeedSyntax | packages.NeedTypesInfo | packages.NeedTypesSizes | packages.NeedModule,
		Dir:     dir,
		Env:     env,
		Tests:   false,
		Overlay: overlay,
	}
	pkgs, err := packages.Load(cfg, "./x/...", "./app/...")
	if err != nil {
		return nil, err
	}
	if len(pkgs) == 0 {
		return nil, fmt.Errorf("no packages loaded")
	}
	var errs []string
	for _, p := range pkgs {
		for _, e := range p.Errors {
			errs = append(errs, e.Error())
		}
	}
	if len(errs) > 0 {
		sort.Strings(errs)
		if len(errs) > 10 {
			errs = errs[:10]
		}
		return nil, fmt.Errorf("package errors: %s", strings.Join(errs, "; "))
	}
	prog, spkgs := ssautil.Packages(pkgs, ssa.InstantiateGenerics)
	prog.Build()
	P := &Prog{Fset: prog.Fset, Pkgs: pkgs, SSA: prog, SSAPkgs: map[string]*ssa.Package{}, Dir: dir}
	for i, sp := range spkgs {
		if sp == nil {
			return nil, fmt.Errorf("no SSA for %s", pkgs[i].PkgPath)
		}
		P.SSAPkgs[pkgs[i].PkgPath] = sp
	}
	P.AllFuncs = ssautil.AllFunctions(prog)
	for f := range P.AllFuncs {
		if f.Pkg != nil && strings.HasPrefix(f.Pkg.Pkg.Path(), modPath) && f.Blocks != nil {
			P.NumFuncs++
		}
	}
	return P, nil
}

var _ = types.Universe
