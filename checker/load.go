package main

// Loader. The repository's packages (./x/... ./app/... and the module packages they import, e.g.
// testutil) are parsed and type-checked FROM SOURCE on every run; packages outside the module
// (cosmos-sdk, ibc-go, cometbft, std) are imported from the compiler's export data, which depends
// only on go.mod/go.sum and is cached by the go command. File selection (build tags, GOOS/GOARCH)
// and the dependency graph come from `go list` with the repository's own configuration.
//
// This is what go/packages' LoadSyntax mode does, except that export data is requested only for
// packages outside the module, so an edited module file never triggers a recompilation of its
// dependents (which made overlay-based self-test variants cost minutes each).

import (
	"bytes"
	"crypto/sha256"
	"encoding/json"
	"fmt"
	"go/ast"
	"go/parser"
	"go/token"
	"go/types"
	"io"
	"os"
	"os/exec"
	"path/filepath"
	"sort"
	"strings"
	"time"

	"golang.org/x/tools/go/gcexportdata"
	"golang.org/x/tools/go/ssa"
)

const modPath = "github.com/cosmos/interchain-security/v7"

// Pkg is one source-loaded package of the repository.
type Pkg struct {
	PkgPath string
	Dir     string
	Files   []*ast.File
	Types   *types.Package
	Info    *types.Info
	Root    bool // matched by ./x/... or ./app/...
}

// Prog is the loaded, type-checked and SSA-built repository.
type Prog struct {
	Fset      *token.FileSet
	Pkgs      []*Pkg // root packages (./x/... ./app/...)
	AllPkgs   []*Pkg // every module package loaded from source
	SSA       *ssa.Program
	SSAPkgs   map[string]*ssa.Package // by import path
	NumFuncs  int
	AllFuncs  map[*ssa.Function]bool
	Dir       string
	funcIndex map[string]*ssa.Function
	cidx      *callIndex
	External  int // packages imported from export data
}

type listPkg struct {
	ImportPath string
	Dir        string
	Name       string
	GoFiles    []string
	CgoFiles   []string
	Imports    []string
	ImportMap  map[string]string
	Export     string
	Standard   bool
	DepOnly    bool
	Module     *struct{ Path string }
	Error      *struct{ Err string }
	DepsErrors []*struct{ Err string }
}

func goEnv() []string {
	env := []string{}
	for _, e := range os.Environ() {
		k := strings.SplitN(e, "=", 2)[0]
		switch k {
		case "GOFLAGS", "GOPROXY", "GOWORK", "GOTOOLCHAIN", "GOSUMDB":
			continue
		}
		env = append(env, e)
	}
	return append(env, "GOFLAGS=-mod=mod", "GOPROXY=off", "GOWORK=off", "GOTOOLCHAIN=auto")
}

func goList(dir string, args ...string) ([]*listPkg, error) {
	cmd := exec.Command("go", append([]string{"list", "-e", "-json=ImportPath,Dir,Name,GoFiles,CgoFiles,Imports,ImportMap,Export,Standard,DepOnly,Module,Error,DepsErrors"}, args...)...)
	cmd.Dir = dir
	cmd.Env = goEnv()
	var stderr bytes.Buffer
	cmd.Stderr = &stderr
	out, err := cmd.Output()
	if err != nil {
		return nil, fmt.Errorf("go list %v: %v: %s", args, err, firstLine(stderr.String()))
	}
	dec := json.NewDecoder(bytes.NewReader(out))
	var res []*listPkg
	for {
		var p listPkg
		if err := dec.Decode(&p); err == io.EOF {
			break
		} else if err != nil {
			return nil, err
		}
		res = append(res, &p)
	}
	return res, nil
}

// extCache holds, per repository directory, what does not depend on the module's own source text:
// the package listing and the packages imported from export data. It is reused by later loads in
// the same process (self-test variants), which re-parse and re-check every module package.
type extCacheT struct {
	all        []*listPkg
	exportFile map[string]string
	fset       *token.FileSet
	imports    map[string]*types.Package
}

var extCache = map[string]*extCacheT{}

// Load type-checks ./x/... and ./app/... of the repository at dir (plus the module packages they
// import) from source and builds SSA. overlay (optional, absolute path -> content) replaces file
// contents in memory.
var timing = os.Getenv("VERIF_TIMING") != ""

func tick(t0 *time.Time, what string) {
	if timing {
		fmt.Fprintf(os.Stderr, "[timing] %-28s %6.2fs\n", what, time.Since(*t0).Seconds())
	}
	*t0 = time.Now()
}

func Load(dir string, overlay map[string][]byte) (*Prog, error) {
	t0 := time.Now()
	// 1. dependency graph and file sets (no compilation)
	cache := extCache[dir]
	if cache == nil || len(overlay) == 0 {
		all, err := goList(dir, "-deps", "./x/...", "./app/...")
		if err != nil {
			return nil, err
		}
		cache = &extCacheT{all: all, fset: token.NewFileSet(), imports: map[string]*types.Package{}}
		extCache[dir] = cache
	}
	all := cache.all
	tick(&t0, "go list -deps")
	if len(all) == 0 {
		return nil, fmt.Errorf("no packages listed")
	}
	byPath := map[string]*listPkg{}
	var module, external []*listPkg
	for _, p := range all {
		byPath[p.ImportPath] = p
		inModule := p.Module != nil && p.Module.Path == modPath
		if inModule {
			if p.Error != nil {
				return nil, fmt.Errorf("package %s: %s", p.ImportPath, firstLine(p.Error.Err))
			}
			if len(p.CgoFiles) > 0 {
				return nil, fmt.Errorf("package %s uses cgo (unsupported by the source loader)", p.ImportPath)
			}
			module = append(module, p)
		} else {
			external = append(external, p)
		}
	}
	nRoot := 0
	for _, p := range module {
		if !p.DepOnly {
			nRoot++
		}
	}
	if nRoot == 0 {
		return nil, fmt.Errorf("no root packages matched ./x/... ./app/...")
	}

	// 2. export data for the packages outside the module that module packages import directly
	//    (their own dependencies are reached through the export data's import section)
	need := map[string]bool{}
	for _, p := range module {
		for _, imp := range p.Imports {
			if m, ok := p.ImportMap[imp]; ok {
				imp = m
			}
			if q := byPath[imp]; q != nil && !(q.Module != nil && q.Module.Path == modPath) && imp != "unsafe" && imp != "C" {
				need[imp] = true
			}
		}
	}
	var needList []string
	for k := range need {
		needList = append(needList, k)
	}
	sort.Strings(needList)
	exportFile := cache.exportFile
	if exportFile == nil && len(needList) > 0 {
		// The location of the dependencies' export data depends only on go.mod/go.sum (and the
		// toolchain): remember it between runs, keyed by their hash, and re-validate that every file
		// still exists. The module's own packages are never cached: they are re-read above/below.
		key := depsKey(dir, needList)
		exportFile = readExportCache(key)
		if exportFile == nil {
			exportFile = map[string]string{}
			// -deps so that indirectly referenced packages have export files too
			ex, err := goList(dir, append([]string{"-export", "-deps"}, needList...)...)
			if err != nil {
				return nil, err
			}
			for _, p := range ex {
				if p.Export != "" {
					exportFile[p.ImportPath] = p.Export
				}
			}
			writeExportCache(key, exportFile)
		}
		cache.exportFile = exportFile
	}
	tick(&t0, "go list -export")
	// 3. parse + type-check module packages in dependency order
	fset := cache.fset
	imports := cache.imports // packages read from export data (never module packages)
	P := &Prog{Fset: fset, SSAPkgs: map[string]*ssa.Package{}, Dir: dir}
	srcPkgs := map[string]*Pkg{}
	var typeErrs []string
	var check func(lp *listPkg) (*types.Package, error)
	importExternal := func(path string) (*types.Package, error) {
		if path == "unsafe" {
			return types.Unsafe, nil
		}
		if p := imports[path]; p != nil && p.Complete() {
			return p, nil
		}
		f := exportFile[path]
		if f == "" {
			return nil, fmt.Errorf("no export data for %s", path)
		}
		fh, err := os.Open(f)
		if err != nil {
			return nil, err
		}
		defer fh.Close()
		r, err := gcexportdata.NewReader(fh)
		if err != nil {
			return nil, fmt.Errorf("%s: %v", path, err)
		}
		return gcexportdata.Read(r, fset, imports, path)
	}
	type importerFn func(path string) (*types.Package, error)
	checking := map[string]bool{}
	check = func(lp *listPkg) (*types.Package, error) {
		if sp := srcPkgs[lp.ImportPath]; sp != nil {
			return sp.Types, nil
		}
		if checking[lp.ImportPath] {
			return nil, fmt.Errorf("import cycle through %s", lp.ImportPath)
		}
		checking[lp.ImportPath] = true
		var files []*ast.File
		for _, gf := range lp.GoFiles {
			path := filepath.Join(lp.Dir, gf)
			var src interface{}
			if b, ok := overlay[path]; ok {
				src = b
			}
			f, err := parser.ParseFile(fset, path, src, parser.ParseComments|parser.SkipObjectResolution)
			if err != nil {
				return nil, err
			}
			if src != nil {
				// an overlay must not change the import graph the listing was computed for
				known := map[string]bool{}
				for _, i := range lp.Imports {
					known[i] = true
				}
				for _, is := range f.Imports {
					if ip := strings.Trim(is.Path.Value, "\""); !known[ip] {
						return nil, fmt.Errorf("overlay of %s adds import %s (unsupported: re-run on a scratch copy)", gf, ip)
					}
				}
			}
			files = append(files, f)
		}
		info := &types.Info{
			Types:      map[ast.Expr]types.TypeAndValue{},
			Defs:       map[*ast.Ident]types.Object{},
			Uses:       map[*ast.Ident]types.Object{},
			Implicits:  map[ast.Node]types.Object{},
			Instances:  map[*ast.Ident]types.Instance{},
			Scopes:     map[ast.Node]*types.Scope{},
			Selections: map[*ast.SelectorExpr]*types.Selection{},
		}
		conf := types.Config{
			Importer: importerFunc(func(path string) (*types.Package, error) {
				if m, ok := lp.ImportMap[path]; ok {
					path = m
				}
				if dep := byPath[path]; dep != nil && dep.Module != nil && dep.Module.Path == modPath {
					return check(dep)
				}
				return importExternal(path)
			}),
			Sizes: types.SizesFor("gc", "amd64"),
			Error: func(err error) {
				if len(typeErrs) < 10 {
					typeErrs = append(typeErrs, err.Error())
				}
			},
			GoVersion: "go1.23",
		}
		tp, _ := conf.Check(lp.ImportPath, fset, files, info)
		pk := &Pkg{PkgPath: lp.ImportPath, Dir: lp.Dir, Files: files, Types: tp, Info: info, Root: !lp.DepOnly}
		srcPkgs[lp.ImportPath] = pk
		P.AllPkgs = append(P.AllPkgs, pk)
		if pk.Root {
			P.Pkgs = append(P.Pkgs, pk)
		}
		return tp, nil
	}
	sort.Slice(module, func(i, j int) bool { return module[i].ImportPath < module[j].ImportPath })
	for _, lp := range module {
		if _, err := check(lp); err != nil {
			return nil, fmt.Errorf("package errors: %v", err)
		}
	}
	if len(typeErrs) > 0 {
		return nil, fmt.Errorf("package errors: %s", strings.Join(typeErrs, "; "))
	}

	tick(&t0, "parse+typecheck+import")
	// 4. SSA
	prog := ssa.NewProgram(fset, ssa.InstantiateGenerics)
	created := map[*types.Package]bool{}
	var createAll func(p *types.Package)
	createAll = func(p *types.Package) {
		if p == nil || created[p] {
			return
		}
		created[p] = true
		for _, imp := range p.Imports() {
			createAll(imp)
		}
		if sp := srcPkgs[p.Path()]; sp != nil && sp.Types == p {
			P.SSAPkgs[p.Path()] = prog.CreatePackage(p, sp.Files, sp.Info, false)
		} else {
			prog.CreatePackage(p, nil, nil, true)
			P.External++
		}
	}
	for _, pk := range P.AllPkgs {
		createAll(pk.Types)
	}
	tick(&t0, "ssa create")
	prog.Build()
	tick(&t0, "ssa build")
	P.SSA = prog
	P.AllFuncs = allFunctions(prog, P)
	for f := range P.AllFuncs {
		if f.Pkg != nil && strings.HasPrefix(f.Pkg.Pkg.Path(), modPath) && f.Blocks != nil {
			P.NumFuncs++
		}
	}
	tick(&t0, "all functions")
	return P, nil
}

type importerFunc func(path string) (*types.Package, error)

func (f importerFunc) Import(path string) (*types.Package, error) { return f(path) }

// allFunctions: every function, method (of every named type, value and pointer receiver) and
// anonymous function of the source-loaded packages.
func allFunctions(prog *ssa.Program, P *Prog) map[*ssa.Function]bool {
	out := map[*ssa.Function]bool{}
	var add func(f *ssa.Function)
	add = func(f *ssa.Function) {
		if f == nil || out[f] {
			return
		}
		out[f] = true
		for _, a := range f.AnonFuncs {
			add(a)
		}
	}
	for _, sp := range P.SSAPkgs {
		for _, m := range sp.Members {
			switch x := m.(type) {
			case *ssa.Function:
				add(x)
			case *ssa.Type:
				t := x.Type()
				for _, tt := range []types.Type{t, types.NewPointer(t)} {
					ms := prog.MethodSets.MethodSet(tt)
					for i := 0; i < ms.Len(); i++ {
						add(prog.MethodValue(ms.At(i)))
					}
				}
			}
		}
	}
	return out
}

func depsKey(dir string, need []string) string {
	h := sha256.New()
	for _, f := range []string{"go.mod", "go.sum"} {
		b, _ := os.ReadFile(filepath.Join(dir, f))
		h.Write(b)
		h.Write([]byte{0})
	}
	out, _ := exec.Command("go", "env", "GOVERSION", "GOOS", "GOARCH", "GOCACHE").Output()
	h.Write(out)
	h.Write([]byte(strings.Join(need, ",")))
	return fmt.Sprintf("%x", h.Sum(nil))[:24]
}

func exportCachePath(key string) string {
	return filepath.Join(verifDir(), ".cache", "export-"+key+".json")
}

func readExportCache(key string) map[string]string {
	b, err := os.ReadFile(exportCachePath(key))
	if err != nil {
		return nil
	}
	var m map[string]string
	if json.Unmarshal(b, &m) != nil || len(m) == 0 {
		return nil
	}
	for _, f := range m {
		if _, err := os.Stat(f); err != nil {
			return nil // build cache was trimmed: ask the go command again
		}
	}
	return m
}

func writeExportCache(key string, m map[string]string) {
	os.MkdirAll(filepath.Dir(exportCachePath(key)), 0o755)
	b, _ := json.Marshal(m)
	tmp := exportCachePath(key) + fmt.Sprintf(".%d.tmp", os.Getpid())
	if os.WriteFile(tmp, b, 0o644) == nil {
		os.Rename(tmp, exportCachePath(key))
	}
}
