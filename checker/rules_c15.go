package main

import (
	"fmt"
	"go/token"
	"strings"

	"golang.org/x/tools/go/ssa"
)

func init() {
	register(&propDef{
		ID: "C15",
		Explanation: "Decides how the provider's own consensus set is produced and wired: ProviderValidatorUpdates takes bonded[:min(M,len)] of staking's power-ordered list (M = MaxProviderConsensusValidators, no re-ordering), builds each entry from the validator's own key and last power, stores that set and returns its diff against the set read before the store; EndBlockVSU returns exactly that diff on success; " +
			"the provider app registers the no-validator-updates staking and genutil wrappers (whose EndBlock/InitGenesis return an empty update list while still running the wrapped logic), orders the provider's end-blocker after staking, registers the provider's staking hooks, and hands the provider keeper to gov and mint as their staking view; " +
			"the bonded-validator iteration exposed to gov/mint stops after M validators and TotalBondedTokens/BondedRatio are built on it; genesis stores and returns the same truncated set.",
		NotDecided: []string{"correctness of DiffValidators as a set difference (per-element structure only)", "equality of the engine's accumulated set with the recorded set over time (follows from 'returned diff = diff of recorded sets' together with CometBFT applying updates faithfully)", "staking's ordering of GetBondedValidatorsByPower"},
		Run:        runC15,
	})
}

func runC15(c *Ctx) {
	maxM := PCall("pk.Keeper.GetMaxProviderConsensusValidators", -1, nil)
	defer checkParamGetters(c, "pk", "GetMaxProviderConsensusValidators")
	bonded := PCall("ccv.StakingKeeper.GetBondedValidatorsByPower", 0, nil)

	// ---- R1 ------------------------------------------------------------------------------------
	c.Rule("R1", "ProviderValidatorUpdates: next set = one entry per validator of bonded[:min(M,len)] in staking order; stored with SetLastProviderConsensusValSet; returned updates = DiffValidators(set read before the store, stored set); EndBlockVSU returns that value on every success path", 9)
	if f := c.Fn("pk.Keeper.ProviderValidatorUpdates"); f != nil {
		get := c.one(f, false, "pk.Keeper.GetLastProviderConsensusValSet")
		set := c.one(f, false, "pk.Keeper.SetLastProviderConsensusValSet")
		df := c.one(f, false, "pk.DiffValidators")
		mk := c.one(f, false, "pk.Keeper.CreateProviderConsensusValidator")
		if get != nil && set != nil && df != nil && mk != nil {
			// loop source: bonded[:maxValidators] with maxValidators in {M, len(bonded)}
			okSrc := false
			for _, r := range elementSource(arg(mk, 1)) {
				if sl, ok := r.(*ssa.Slice); ok && bonded(sl.X) && sl.Low == nil && sl.High != nil {
					okHigh := true
					for _, h := range roots(sl.High) {
						isM := maxM(h)
						isLen := false
						if cl, isC := strip(h).(*ssa.Call); isC && isCallTo(cl, "builtin.len") && bonded(cl.Call.Args[0]) {
							isLen = true
						}
						if !isM && !isLen {
							okHigh = false
						}
					}
					okSrc = okHigh
				}
			}
			c.Check(okSrc, fk(f, "top-M-of-staking-order"), mk, "entries are built for bonded[:min(M, len(bonded))] of GetBondedValidatorsByPower; found source "+describe(arg(mk, 1)))
			bound := Atom{"M > len(bonded)", cmpAtom(func(op token.Token, x, y ssa.Value) (bool, bool) {
				isLen := func(v ssa.Value) bool {
					cl, ok := strip(v).(*ssa.Call)
					return ok && isCallTo(cl, "builtin.len") && bonded(cl.Call.Args[0])
				}
				if op == token.GTR && maxM(x) && isLen(y) || op == token.LSS && isLen(x) && maxM(y) {
					return true, true
				}
				return false, false
			})}
			c.Check(len(ifsTesting(f, bound.Fn)) == 1, fk(f, "bounded-by-len"), f, "M is clamped to the number of bonded validators")
			c.Check(len(Calls(f, false, "sort.Slice", "sort.SliceStable", "sort.Sort")) == 0, fk(f, "no-reorder"), f, "the staking order is not re-sorted")
			// the stored set is the appended entries
			okStore := false
			for _, r := range roots(arg(set, 1)) {
				if cl, _ := callOf(r); cl != nil && isCallTo(cl, "builtin.append") && PIs(extractOf(mk, 0))(sliceLitElem(callArgs(cl)[1])) {
					okStore = true
				}
			}
			c.Check(okStore, fk(f, "stores-built-set"), set, "the stored set consists of the created entries")
			c.Check(PIs(extractOf(get, 0))(arg(df, 0)) && sharesRoots(arg(df, 1), arg(set, 1)), fk(f, "diff-of-recorded-sets"), df, "DiffValidators(previously recorded set, newly recorded set)")
			c.Check(!NewReach(f).After(set)[get], fk(f, "previous-read-before-store"), get, "the previous set is read before it is overwritten")
			for _, r := range successReturns(f) {
				c.Check(mustPassBefore(r, set) && PIs(df.Value())(r.Results[0]), fk(f, "returns-diff-after-store"), r, "returns the diff after recording the new set")
			}
			// every validator of the range is included: from a successful create the loop proceeds only through the append
			for _, a := range Calls(f, false, "builtin.append") {
				rq, _ := reachUnder(f, T(AErrNil("create ok", PIs(extractOf(mk, 1)))))
				rq.CutInstrs[a] = true
				after := rq.After(mk)
				lost := after[mk.(ssa.Instruction)]
				for _, r := range successReturns(f) {
					if after[r] {
						lost = true
					}
				}
				c.Check(!lost, fk(f, "every-top-validator-included"), a, "every validator of the range is appended")
			}
		}
	}
	if f := c.Fn("pk.Keeper.EndBlockVSU"); f != nil {
		if p := c.one(f, false, "pk.Keeper.ProviderValidatorUpdates"); p != nil {
			for _, r := range successReturns(f) {
				c.Check(PIs(extractOf(p, 0))(r.Results[0]), fk(f, "returns-provider-diff"), r, "the updates returned to consensus are ProviderValidatorUpdates' result; found "+describe(r.Results[0]))
			}
			c.Check(!inLoop(p), fk(f, "once-per-block"), p, "computed once per block")
		}
	}
	if f := c.Fn("provider.AppModule.EndBlock"); f != nil {
		if v := c.one(f, false, "pk.Keeper.EndBlockVSU"); v != nil {
			for _, r := range Returns(f) {
				c.Check(PIs(extractOf(v, 0))(r.Results[0]) && PIs(extractOf(v, 1))(r.Results[1]), fk(f, "returns-VSU-result"), r, "the module returns EndBlockVSU's updates and error unchanged")
			}
		}
	}

	// the recorded set is the diff base: nothing else may change it between two end-blocks
	c.OnlyCalledFrom("pk.Keeper.SetLastProviderConsensusValSet", "pk.Keeper.ProviderValidatorUpdates")
	c.OnlyCalledFrom("pk.Keeper.SetLastProviderConsensusValidator")
	c.OnlyCalledFrom("pk.Keeper.DeleteLastProviderConsensusValidator")
	c.OnlyCalledFrom("pk.Keeper.DeleteLastProviderConsensusValSet")
	for _, h := range []string{"pk.Keeper.setValSet", "pk.Keeper.setValidator", "pk.Keeper.deleteValidator", "pk.Keeper.deleteValSet"} {
		sites, _ := c.Callers(h)
		ke := &keyEval{p: c.P}
		for _, s := range sites {
			cl, ok := s.(ssa.CallInstruction)
			if !ok {
				continue
			}
			if leadingConst(ke.evalBytes(arg(cl, 1), nil)) != "LastProviderConsensusValsKey" {
				continue
			}
			top := shortName(ssaFuncName(topFn(s.Parent())))
			okW := map[string]bool{"keeper.Keeper.SetLastProviderConsensusValSet": true, "keeper.Keeper.SetLastProviderConsensusValidator": true, "keeper.Keeper.DeleteLastProviderConsensusValidator": true, "keeper.Keeper.DeleteLastProviderConsensusValSet": true}[top]
			c.Check(okW, fk(topFn(s.Parent()), "writes-recorded-provider-set"), s, "the recorded provider consensus set is written only through its dedicated accessors")
		}
	}

	// ---- R2 ------------------------------------------------------------------------------------
	c.Rule("R2", "CreateProviderConsensusValidator: provider consensus key, consensus address and GetLastValidatorPower of the same validator", 3)
	if f := c.Fn("pk.Keeper.CreateProviderConsensusValidator"); f != nil {
		v := PParam("val")
		for _, r := range successReturns(f) {
			st := structLitFields(r.Results[0])
			if st == nil {
				c.Undecided(fk(f, "result-literal"), r, "result is not a struct literal")
				continue
			}
			c.Check(PCall("staking.Validator.GetConsAddr", 0, v)(st["ProviderConsAddr"]), fk(f, "address"), r, "ProviderConsAddr = val.GetConsAddr()")
			c.Check(PAddrOf(PCall("staking.Validator.CmtConsPublicKey", 0, v))(st["PublicKey"]), fk(f, "key"), r, "PublicKey = the validator's own consensus key; found "+describe(st["PublicKey"]))
			c.Check(PCall("ccv.StakingKeeper.GetLastValidatorPower", 0, nil, nil, PCall("sdk.ValAddressFromBech32", 0, nil, PCall("staking.Validator.GetOperator", -1, v)))(st["Power"]), fk(f, "power"), r, "Power = GetLastValidatorPower(val's operator)")
		}
	}

	// ---- R3 ------------------------------------------------------------------------------------
	c.Rule("R3", "wiring (app/provider): no_valupdates staking and genutil wrappers are the registered modules and return empty update lists while running the wrapped logic; provider end-blocker ordered after staking; provider staking hooks registered; gov and mint receive the provider keeper as staking view", 9)
	if f := c.Fn("nvstaking.AppModule.EndBlock"); f != nil {
		eb := Calls(f, false, "github.com/cosmos/cosmos-sdk/x/staking/keeper.Keeper.EndBlocker")
		c.Check(len(eb) == 1, fk(f, "runs-staking-endblocker"), f, "the wrapped staking EndBlocker still runs")
		for _, r := range Returns(f) {
			c.Check(isEmptySliceLit(r.Results[0]), fk(f, "returns-no-updates"), r, "returns an empty validator-update list; found "+describe(r.Results[0]))
			if len(eb) == 1 {
				c.Check(PIs(extractOf(eb[0], 1))(r.Results[1]), fk(f, "propagates-error"), r, "propagates the staking EndBlocker's error")
			}
		}
	}
	if f := c.Fn("nvstaking.AppModule.InitGenesis"); f != nil {
		c.Check(len(Calls(f, false, "github.com/cosmos/cosmos-sdk/x/staking/keeper.Keeper.InitGenesis")) == 1, fk(f, "runs-staking-genesis"), f, "the wrapped staking InitGenesis still runs")
		for _, r := range Returns(f) {
			c.Check(isEmptySliceLit(r.Results[0]), fk(f, "returns-no-updates"), r, "returns an empty validator-update list")
		}
	}
	if f := c.Fn("nvgenutil.AppModule.InitGenesis"); f != nil {
		c.Check(len(Calls(f, false, "github.com/cosmos/cosmos-sdk/x/genutil.InitGenesis")) == 1, fk(f, "runs-genutil-genesis"), f, "the wrapped genutil InitGenesis still runs")
		for _, r := range Returns(f) {
			c.Check(isEmptySliceLit(r.Results[0]), fk(f, "returns-no-updates"), r, "returns an empty validator-update list")
		}
	}
	if f := c.Fn("papp.New"); f != nil {
		provKeeper := func(v ssa.Value) bool {
			for _, r := range roots(v) {
				_, n, ok := fieldLoadOf(r)
				if !ok || n != "ProviderKeeper" {
					if fa, isFA := r.(*ssa.FieldAddr); isFA && fieldName(fa.X.Type(), fa.Field) == "ProviderKeeper" {
						continue
					}
					return false
				}
			}
			return true
		}
		if g := c.one(f, false, "github.com/cosmos/cosmos-sdk/x/gov/keeper.NewKeeper"); g != nil {
			c.Check(provKeeper(arg(g, 4)), fk(f, "gov-staking-view"), g, "gov's staking keeper argument is app.ProviderKeeper; found "+describe(arg(g, 4)))
		}
		if m := c.one(f, false, "github.com/cosmos/cosmos-sdk/x/mint/keeper.NewKeeper"); m != nil {
			c.Check(provKeeper(arg(m, 2)), fk(f, "mint-staking-view"), m, "mint's staking keeper argument is app.ProviderKeeper; found "+describe(arg(m, 2)))
		}
		c.Check(len(Calls(f, false, "nvstaking.NewAppModule")) == 1 && len(Calls(f, false, "github.com/cosmos/cosmos-sdk/x/staking.NewAppModule")) == 0, fk(f, "staking-wrapper-registered"), f, "the staking module registered is the no-validator-updates wrapper")
		c.Check(len(Calls(f, false, "nvgenutil.NewAppModule")) == 1 && len(Calls(f, false, "github.com/cosmos/cosmos-sdk/x/genutil.NewAppModule")) == 0, fk(f, "genutil-wrapper-registered"), f, "the genutil module registered is the no-validator-updates wrapper")
		if o := c.one(f, false, "github.com/cosmos/cosmos-sdk/types/module.Manager.SetOrderEndBlockers"); o != nil {
			names := variadicStrings(arg(o, 0))
			is, ip := -1, -1
			stk, _ := c.StringConst("staking.ModuleName")
			prv, _ := c.StringConst("pt.ModuleName")
			for i, n := range names {
				if n == stk {
					is = i
				}
				if n == prv {
					ip = i
				}
			}
			c.Check(is >= 0 && ip > is, fk(f, "provider-endblock-after-staking"), o, fmt.Sprintf("end-block order %v: provider after staking", names))
		}
		hooks := false
		for _, cl := range Calls(f, false, "staking.NewMultiStakingHooks") {
			for _, e := range variadicValues(arg(cl, 0)) {
				if cc, _ := callOf(e); cc != nil && isCallTo(cc, "pk.Keeper.Hooks") {
					hooks = true
				}
			}
		}
		c.Check(hooks, fk(f, "provider-staking-hooks"), f, "the provider keeper's hooks are among the staking hooks (validator created/removed)")
	}

	// ---- R4 ------------------------------------------------------------------------------------
	c.Rule("R4", "staking views for gov/mint: IterateBondedValidatorsByPower stops once M validators were visited and forwards the callback's result; TotalBondedTokens and BondedRatio are built on it", 5)
	if f := c.Fn("pk.Keeper.IterateBondedValidatorsByPower"); f != nil {
		var cb *ssa.Function
		if it := c.one(f, false, "ccv.StakingKeeper.IterateBondedValidatorsByPower"); it != nil {
			if mc, ok := arg(it, 1).(*ssa.MakeClosure); ok {
				cb, _ = mc.Fn.(*ssa.Function)
			}
			for _, r := range Returns(f) {
				c.Check(PIs(it.Value())(r.Results[0]), fk(f, "returns-iteration-error"), r, "returns the staking iteration's error")
			}
		}
		if cb == nil {
			c.Undecided(fk(f, "callback"), f, "the staking iteration is not given a closure literal")
		} else {
			stop := Atom{"counter >= M", cmpAtom(func(op token.Token, x, y ssa.Value) (bool, bool) {
				isM := func(v ssa.Value) bool {
					for _, r := range roots(v) {
						if u, ok := r.(*ssa.UnOp); ok {
							if _, isFV := u.X.(*ssa.FreeVar); isFV {
								continue
							}
						}
						if _, isFV := r.(*ssa.FreeVar); isFV {
							continue
						}
						return false
					}
					return true
				}
				switch op {
				case token.GEQ:
					if isM(x) && isM(y) {
						return true, true
					}
				case token.LSS:
					if isM(x) && isM(y) {
						return true, false
					}
				}
				return false, false
			})}
			nStop, nFwd := 0, 0
			for _, r := range Returns(cb) {
				if b, ok := constBool(r.Results[0]); ok && b {
					nStop++
					c.GuardedBy(r, fk(f, "stops-at-M"), stop)
				} else {
					nFwd++
					c.UnreachableAfterHold(r, fk(f, "no-callback-beyond-M"), stop)
				}
			}
			c.Check(nStop == 1 && nFwd == 1, fk(f, "callback-shape"), f, "stop when counter >= M, otherwise count and forward")
			// counter and M are what they claim: M captured from GetMaxProviderConsensusValidators, counter incremented by 1 per forwarded call
			okM := false
			if it := Calls(f, false, "pk.Keeper.GetMaxProviderConsensusValidators"); len(it) == 1 {
				okM = true
			}
			inc := false
			for _, in := range allInstrs(cb) {
				if st, ok := in.(*ssa.Store); ok {
					if b, ok := st.Val.(*ssa.BinOp); ok && b.Op == token.ADD && PConstInt(1)(b.Y) {
						inc = true
					}
				}
			}
			c.Check(okM && inc, fk(f, "counts-against-M"), f, "M = GetMaxProviderConsensusValidators; the counter advances by one per visited validator")
		}
	}
	for _, fn := range []string{"pk.Keeper.TotalBondedTokens"} {
		if f := c.Fn(fn); f != nil {
			c.Check(len(Calls(f, false, "pk.Keeper.IterateBondedValidatorsByPower")) == 1 && len(Calls(f, false, "ccv.StakingKeeper.TotalBondedTokens")) == 0, fk(f, "built-on-capped-iteration"), f, "sums over the capped iteration, not staking's own total")
		}
	}
	if f := c.Fn("pk.Keeper.BondedRatio"); f != nil {
		c.Check(len(Calls(f, false, "pk.Keeper.TotalBondedTokens")) == 1 && len(Calls(f, false, "ccv.StakingKeeper.BondedRatio")) == 0, fk(f, "built-on-capped-total"), f, "uses the capped TotalBondedTokens")
	}

	// ---- R5 ------------------------------------------------------------------------------------
	c.Rule("R5", "genesis: InitGenesisValUpdates truncates staking's bonded list to M, stores that set and returns updates built from the very set it stored", 3)
	if f := c.Fn("pk.Keeper.InitGenesisValUpdates"); f != nil {
		set := c.one(f, false, "pk.Keeper.SetLastProviderConsensusValSet")
		if set != nil {
			trunc := false
			for _, in := range allInstrs(f) {
				if sl, ok := in.(*ssa.Slice); ok && sl.High != nil && sl.Low == nil && maxM(sl.High) && allRoots(sl.X, bonded, func(v ssa.Value) bool { _, s := v.(*ssa.Slice); return s }) {
					trunc = true
				}
			}
			c.Check(trunc, fk(f, "truncates-to-M"), f, "the bonded list is truncated to [:MaxProviderConsensusValidators]")
			// returned updates are built by ranging over the stored slice
			okRet := false
			for _, in := range allInstrs(f) {
				if st, ok := in.(*ssa.Store); ok {
					if fa, ok := st.Addr.(*ssa.FieldAddr); ok && fieldName(fa.X.Type(), fa.Field) == "Power" {
						if _, n, isF := fieldLoadOf(st.Val); isF && n == "Power" {
							for _, r := range elementSource(fieldBase(st.Val)) {
								if sharesRoots(r, arg(set, 1)) {
									okRet = true
								}
							}
						}
					}
				}
			}
			c.Check(okRet, fk(f, "returns-stored-set"), set, "the returned updates are built from the set that was stored")
			c.Check(len(Calls(f, false, "sort.Slice", "sort.SliceStable")) == 0, fk(f, "no-reorder"), f, "no re-ordering")
		}
	}
}

// variadicValues returns the elements of a variadic argument slice literal.
func variadicValues(v ssa.Value) []ssa.Value {
	sl, ok := v.(*ssa.Slice)
	if !ok {
		return nil
	}
	al, ok := sl.X.(*ssa.Alloc)
	if !ok {
		return nil
	}
	idx := map[int64]ssa.Value{}
	var max int64 = -1
	for _, r := range *al.Referrers() {
		if ia, ok := r.(*ssa.IndexAddr); ok {
			i, okI := constInt(ia.Index)
			if !okI {
				continue
			}
			for _, rr := range *ia.Referrers() {
				if st, ok := rr.(*ssa.Store); ok && st.Addr == ia {
					idx[i] = st.Val
					if i > max {
						max = i
					}
				}
			}
		}
	}
	var out []ssa.Value
	for i := int64(0); i <= max; i++ {
		out = append(out, idx[i])
	}
	return out
}

func variadicStrings(v ssa.Value) []string {
	var out []string
	for _, e := range variadicValues(v) {
		if e == nil {
			out = append(out, "?")
			continue
		}
		s, ok := constString(e)
		if !ok {
			s = "?" + strings.TrimSpace(describe(e))
		}
		out = append(out, s)
	}
	return out
}
