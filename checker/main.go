package main

import (
	"encoding/json"
	"flag"
	"fmt"
	"os"
	"path/filepath"
	"sort"
	"strings"
	"time"
)

func verifDir() string {
	if d := os.Getenv("VERIF_DIR"); d != "" {
		return d
	}
	exe, err := os.Executable()
	if err == nil {
		return filepath.Dir(filepath.Dir(exe))
	}
	return "/verif"
}

func main() {
	if len(os.Args) < 2 {
		fmt.Fprintln(os.Stderr, "usage: icsverif warm|check|explain|dump ...")
		os.Exit(2)
	}
	switch os.Args[1] {
	case "warm":
		p, err := Load("/repo", nil)
		if err != nil {
			fmt.Fprintln(os.Stderr, "load failed:", err)
			os.Exit(2)
		}
		fmt.Printf("loaded %d packages, %d functions\n", len(p.Pkgs), p.NumFuncs)
	case "accessors":
		P, err := Load("/repo", nil)
		if err != nil {
			fmt.Println(err)
			os.Exit(2)
		}
		debugAccessors(P)
	case "loops":
		P, err := Load("/repo", nil)
		if err != nil {
			fmt.Println(err)
			os.Exit(2)
		}
		debugLoops(P)
		debugIterDel(P)
		debugWrapNil(P)
		ds, tot := droppedErrors(P, "pk", "ck", "provider", "consumer", "ccv")
		for _, d := range ds {
			fmt.Printf("dropped-error %s %s -> %s\n", P.InstrPos(d), shortName(ssaFuncName(topFn(d.Parent()))), shortName(calleeName(d)))
		}
		fmt.Printf("%d calls with an error result, %d dropped\n", tot, len(ds))
	case "check":
		fs := flag.NewFlagSet("check", flag.ExitOnError)
		prop := fs.String("property", "", "property id (or 'all')")
		tier := fs.String("tier", "quick", "quick|thorough")
		repo := fs.String("repo", "/repo", "repository root")
		verbose := fs.Bool("v", false, "print every obligation")
		fs.Parse(os.Args[2:])
		if t := os.Getenv("VERIF_TIER"); t != "" && *tier == "" {
			*tier = t
		}
		t0 := time.Now()
		P, err := Load(*repo, nil)
		if err != nil {
			// a tree that does not load cannot be judged: fail loudly, never pass by not looking
			fmt.Printf("VIOLATION property=%s replay=%s\n  load failed: %v\n", *prop, "/verif/evidence/violations/load-failure", err)
			os.Exit(1)
		}
		load := time.Since(t0).Seconds()
		ids := []string{*prop}
		if *prop == "all" {
			ids = nil
			for id := range props {
				ids = append(ids, id)
			}
			sort.Strings(ids)
		}
		rc := 0
		for _, id := range ids {
			var extra map[string]interface{}
			if *tier == "thorough" {
				var rs []VariantResult
				extra, rs = runSelftests(id, *repo, verifDir())
				for _, r := range rs {
					fmt.Printf("selftest %s %-22s %s %v %s\n", id, r.Outcome, r.Name, r.Fired, detailIfBad(r))
				}
			}
			r := runProperty(P, id, *tier, verifDir(), round2(load), extra)
			if *verbose {
				dumpEvidence(filepath.Join(verifDir(), "evidence", id+".json"))
			}
			if r > rc {
				rc = r
			}
		}
		os.Exit(rc)
	case "variant", "try":
		fs := flag.NewFlagSet("variant", flag.ExitOnError)
		prop := fs.String("property", "", "property id")
		name := fs.String("name", "", "variant name in selftest/<property>.json")
		repo := fs.String("repo", "/repo", "repository root")
		file := fs.String("file", "", "try: file")
		old := fs.String("old", "", "try: old text")
		nw := fs.String("new", "", "try: new text")
		fs.Parse(os.Args[2:])
		var todo []Variant
		if os.Args[1] == "try" {
			todo = []Variant{{Name: "adhoc", File: *file, Old: *old, New: *nw}}
		} else {
			vs, err := loadVariants(verifDir(), *prop)
			if err != nil {
				fmt.Fprintln(os.Stderr, err)
				os.Exit(2)
			}
			for _, n := range strings.Split(*name, ",") {
				found := false
				for _, x := range vs {
					if x.Name == n {
						todo, found = append(todo, x), true
					}
				}
				if !found {
					fmt.Fprintln(os.Stderr, "no such variant", n)
					os.Exit(2)
				}
			}
		}
		ids := []string{*prop}
		if *prop == "all" {
			ids = nil
			for id := range props {
				ids = append(ids, id)
			}
			sort.Strings(ids)
		}
		for _, v := range todo {
			for _, id := range ids {
				r := runVariantHere(*repo, verifDir(), id, v)
				b, _ := json.Marshal(r)
				fmt.Println(string(b))
			}
		}
	case "explain":
		if len(os.Args) < 3 {
			fmt.Fprintln(os.Stderr, "usage: icsverif explain <violation.json>")
			os.Exit(2)
		}
		b, err := os.ReadFile(os.Args[2])
		if err != nil {
			fmt.Fprintln(os.Stderr, err)
			os.Exit(2)
		}
		var v struct {
			Property   string `json:"property"`
			Obligation Obl    `json:"obligation"`
			RuleText   string `json:"rule_text"`
		}
		json.Unmarshal(b, &v)
		fmt.Printf("property %s rule %s\n  rule: %s\n  construct: %s\n  site: %s\n  status: %s\n  witness: %s\n", v.Property, v.Obligation.Rule, v.RuleText, v.Obligation.Key, v.Obligation.Site, v.Obligation.Status, v.Obligation.Detail)
		// re-run the property on the current tree and report whether the same construct still fails
		P, err := Load("/repo", nil)
		if err != nil {
			fmt.Println("load failed:", err)
			os.Exit(1)
		}
		def := props[v.Property]
		if def == nil {
			os.Exit(2)
		}
		c := &Ctx{P: P, Prop: v.Property, Tier: "quick", floors: map[string]int{}, ruleDesc: map[string]string{}}
		def.Run(c)
		c.traversalRule()
		for _, o := range c.Obls {
			if o.Rule == v.Obligation.Rule && o.Key == v.Obligation.Key && o.Status != Discharged {
				fmt.Printf("still failing on the current tree: %s at %s: %s\n", o.Status, o.Site, o.Detail)
				os.Exit(1)
			}
		}
		fmt.Println("not failing on the current tree")
	default:
		fmt.Fprintln(os.Stderr, "unknown command")
		os.Exit(2)
	}
}

func dumpEvidence(path string) {
	b, err := os.ReadFile(path)
	if err != nil {
		return
	}
	var ev struct {
		Coverage struct {
			Samples []Obl `json:"samples"`
		} `json:"coverage"`
	}
	json.Unmarshal(b, &ev)
	for _, o := range ev.Coverage.Samples {
		fmt.Printf("  %-10s %-8s %-60s %-45s %s\n", o.Status, o.Rule, o.Key, o.Site, o.Detail)
	}
}

func detailIfBad(r VariantResult) string {
	switch r.Outcome {
	case "caught", "silent":
		return ""
	}
	return r.Detail
}
