package main

// Rule engine: obligations, verdicts, evidence files, known findings, CLI plumbing.

import (
	"encoding/json"
	"fmt"
	"os"
	"path/filepath"
	"runtime/debug"
	"sort"
	"strings"
	"time"

	"golang.org/x/tools/go/ssa"
)

type Status string

const (
	Discharged Status = "discharged"
	Violated   Status = "violated"
	Undecided  Status = "undecided"
)

// Obl is one proof obligation of a rule at one discovered construct.
type Obl struct {
	Rule   string `json:"rule"`   // e.g. C05.R2
	Key    string `json:"key"`    // construct key: function + sink + role (never a line number)
	Site   string `json:"site"`   // file:line for the reader
	Status Status `json:"status"` //
	Detail string `json:"detail"` // justification found, or witness of the violation
}

type Ctx struct {
	P        *Prog
	Prop     string
	Tier     string
	Obls     []Obl
	Notes    []string
	floors   map[string]int // rule -> minimum number of obligations
	ruleDesc map[string]string
	curRule  string
	touched  map[*ssa.Function]bool // functions resolved through c.Fn
}

// Rule registers the description of a rule and sets it as current.
func (c *Ctx) Rule(id, desc string, floor int) {
	c.curRule = c.Prop + "." + id
	c.ruleDesc[c.curRule] = desc
	c.floors[c.curRule] = floor
}

func (c *Ctx) add(st Status, key, site, detail string) {
	c.Obls = append(c.Obls, Obl{Rule: c.curRule, Key: key, Site: site, Status: st, Detail: detail})
}

// Check records an obligation: ok ⇒ discharged else violated.
func (c *Ctx) Check(ok bool, key string, at interface{}, detail string) bool {
	st := Violated
	if ok {
		st = Discharged
	}
	c.add(st, key, c.where(at), detail)
	return ok
}

func (c *Ctx) Undecided(key string, at interface{}, detail string) {
	c.add(Undecided, key, c.where(at), detail)
}

func (c *Ctx) where(at interface{}) string {
	switch x := at.(type) {
	case nil:
		return ""
	case string:
		return x
	case ssa.Instruction:
		return c.P.InstrPos(x)
	case *ssa.Function:
		if x == nil {
			return "?"
		}
		return c.P.Pos(x.Pos())
	case ssa.Value:
		return c.P.Pos(valuePos(x))
	}
	return fmt.Sprint(at)
}

// Fn resolves an anchor function; an unresolved anchor is a failed obligation of the current rule.
func (c *Ctx) Fn(spec string) *ssa.Function {
	f := c.P.Func(spec)
	if f == nil {
		c.add(Undecided, "anchor:"+spec, "", "anchor-unresolved: function "+q(spec)+" not found in the loaded program")
	} else {
		if c.touched == nil {
			c.touched = map[*ssa.Function]bool{}
		}
		c.touched[f] = true
	}
	return f
}

// fk builds a construct key.
func fk(fn *ssa.Function, parts ...string) string {
	s := shortName(ssaFuncName(fn))
	for _, p := range parts {
		s += "/" + p
	}
	return s
}

// ---------------------------------------------------------------------------------------------

type KnownFinding struct {
	Property string `json:"property"`
	Rule     string `json:"rule"`
	Key      string `json:"key"`
	What     string `json:"what"`
}

type KnownFile struct {
	Findings []KnownFinding `json:"findings"`
	Fixed    []string       `json:"fixed"`
}

func loadKnown(path string) (*KnownFile, error) {
	b, err := os.ReadFile(path)
	if err != nil {
		if os.IsNotExist(err) {
			return &KnownFile{}, nil
		}
		return nil, err
	}
	var k KnownFile
	if err := json.Unmarshal(b, &k); err != nil {
		return nil, err
	}
	return &k, nil
}

type propDef struct {
	ID          string
	Explanation string   // clauses decided
	NotDecided  []string // clauses not decided
	Run         func(c *Ctx)
}

var props = map[string]*propDef{}

func register(p *propDef) { props[p.ID] = p }

var trustedBase = []string{
	"Go type checker (go/types) and SSA construction (golang.org/x/tools v0.29.0 go/ssa)",
	"static callee resolution + interface-method names for calls into external keepers; reflection/unsafe absent from module code",
	"external summaries: sdk.Context.CacheContext isolates writes until its write function is called; the msg router discards a handler's writes on error; ibc-go discards OnRecvPacket writes on an error acknowledgement; KV iterators are key-ordered",
	"rule tables in /verif/checker/rules_*.go (each entry confirmed by reading the code)",
	"dependencies (cosmos-sdk, ibc-go, cometbft) implement their interfaces as documented",
}

// runProperty executes the rules of one property and writes evidence; returns the exit code.
func runProperty(P *Prog, id, tier, verifDir string, loadSecs float64, extra map[string]interface{}) int {
	def := props[id]
	if def == nil {
		fmt.Fprintf(os.Stderr, "no such property %s\n", id)
		return 2
	}
	start := time.Now()
	c := &Ctx{P: P, Prop: id, Tier: tier, floors: map[string]int{}, ruleDesc: map[string]string{}}
	func() {
		defer func() {
			if r := recover(); r != nil {
				c.curRule = id + ".engine"
				c.add(Undecided, "analyser-panic", "", fmt.Sprintf("analyser panic: %v\n%s", r, debug.Stack()))
			}
		}()
		def.Run(c)
		c.traversalRule()
	}()
	// instance floors: a rule matching fewer sites than confirmed by hand fails
	count := map[string]int{}
	for _, o := range c.Obls {
		count[o.Rule]++
	}
	var rules []string
	for r := range c.floors {
		rules = append(rules, r)
	}
	sort.Strings(rules)
	for _, r := range rules {
		if count[r] < c.floors[r] {
			c.Obls = append(c.Obls, Obl{Rule: r, Key: "instance-floor", Status: Undecided,
				Detail: fmt.Sprintf("rule matched %d constructs, below the floor of %d confirmed on the pinned tree (a rule that matches nothing passes vacuously)", count[r], c.floors[r])})
		}
	}
	known, err := loadKnown(filepath.Join(verifDir, "known_findings.json"))
	if err != nil {
		fmt.Fprintln(os.Stderr, "known_findings.json:", err)
		return 2
	}
	isKnown := func(o Obl) *KnownFinding {
		for i := range known.Findings {
			k := &known.Findings[i]
			if k.Property == id && k.Rule == o.Rule && k.Key == o.Key {
				return k
			}
		}
		return nil
	}
	nViol, nDis, nKnown := 0, 0, 0
	os.MkdirAll(filepath.Join(verifDir, "evidence", "violations"), 0o755)
	// remove stale violation files of this property
	if old, _ := filepath.Glob(filepath.Join(verifDir, "evidence", "violations", id+".*.json")); old != nil {
		for _, f := range old {
			os.Remove(f)
		}
	}
	var lines []string
	seenKnown := map[string]bool{}
	for i, o := range c.Obls {
		switch o.Status {
		case Discharged:
			nDis++
		default:
			if k := isKnown(o); k != nil && o.Status == Violated {
				nKnown++
				if !seenKnown[k.Rule+k.Key] {
					seenKnown[k.Rule+k.Key] = true
					lines = append(lines, fmt.Sprintf("KNOWN-FINDING: property=%s %s [%s %s at %s]", id, k.What, o.Rule, o.Key, o.Site))
				}
				continue
			}
			nViol++
			path := filepath.Join(verifDir, "evidence", "violations", fmt.Sprintf("%s.%s.%d.json", id, strings.TrimPrefix(o.Rule, id+"."), i))
			b, _ := json.MarshalIndent(map[string]interface{}{"property": id, "obligation": o, "rule_text": c.ruleDesc[o.Rule]}, "", " ")
			os.WriteFile(path, b, 0o644)
			lines = append(lines, fmt.Sprintf("VIOLATION property=%s replay=%s", id, path))
			lines = append(lines, fmt.Sprintf("  %s [%s] %s at %s: %s", o.Status, o.Rule, o.Key, o.Site, firstLine(o.Detail)))
		}
	}
	// evidence
	type ruleSum struct {
		Rule        string `json:"rule"`
		Text        string `json:"text"`
		Obligations int    `json:"obligations"`
		Discharged  int    `json:"discharged"`
		Floor       int    `json:"floor"`
	}
	var rs []ruleSum
	for _, r := range rules {
		s := ruleSum{Rule: r, Text: c.ruleDesc[r], Floor: c.floors[r]}
		for _, o := range c.Obls {
			if o.Rule == r {
				s.Obligations++
				if o.Status == Discharged {
					s.Discharged++
				}
			}
		}
		rs = append(rs, s)
	}
	samples := make([]interface{}, 0, len(c.Obls))
	for _, o := range c.Obls {
		o.Detail = firstLine(o.Detail)
		samples = append(samples, o)
	}
	seed := 0
	fmt.Sscan(os.Getenv("VERIF_SEED"), &seed)
	keys := map[string]bool{}
	for _, o := range c.Obls {
		keys[o.Rule+"|"+o.Key] = true
	}
	ev := map[string]interface{}{
		"property_id": id,
		"tier":        tier,
		"seed":        seed,
		"level":       "other",
		"coverage": map[string]interface{}{
			"explanation":         def.Explanation + explanationExtra[def.ID],
			"not_decided":         def.NotDecided,
			"packages":            len(P.Pkgs),
			"functions_analysed":  P.NumFuncs,
			"rules":               rs,
			"obligations":         len(c.Obls),
			"discharged":          nDis,
			"known_findings":      nKnown,
			"evaluations":         len(c.Obls),
			"distinct_nontrivial": len(keys),
			"rule":                "one obligation per (rule, discovered construct); distinct = distinct (rule, construct key) pairs; every obligation is decided on the SSA/CFG of /repo's working tree on this run",
			"samples":             samples,
			"checker_cmd":         fmt.Sprintf("./bin/icsverif check -property %s -tier %s", id, tier),
			"trusted_base":        trustedBase,
			"notes":               c.Notes,
			"exhaustive":          true,
			"load_s":              loadSecs,
		},
		"assumptions": trustedBase,
		"wall_s":      round2(time.Since(start).Seconds() + loadSecs),
		"violations":  nViol,
	}
	for k, v := range extra {
		ev["coverage"].(map[string]interface{})[k] = v
	}
	b, _ := json.MarshalIndent(ev, "", " ")
	if err := os.WriteFile(filepath.Join(verifDir, "evidence", id+".json"), b, 0o644); err != nil {
		fmt.Fprintln(os.Stderr, "cannot write evidence:", err)
		return 2
	}
	fmt.Printf("%s tier=%s: %d packages, %d functions, %d rules, %d obligations, %d discharged, %d known findings, %d violated/undecided\n",
		id, tier, len(P.Pkgs), P.NumFuncs, len(rules), len(c.Obls), nDis, nKnown, nViol)
	for _, l := range lines {
		fmt.Println(l)
	}
	if nViol > 0 {
		return 1
	}
	return 0
}

func firstLine(s string) string {
	if i := strings.Index(s, "\n"); i >= 0 {
		return s[:i]
	}
	return s
}

func round2(f float64) float64 { return float64(int(f*100)) / 100 }

// explanationExtra: clauses added to a property's checks after the seeded rounds (DESIGN section 8),
// appended to the explanation in the evidence file.
var explanationExtra = map[string]string{
	"C01": " Also decided: the epoch gate (queue then send on every success path at a boundary, never in between); the shared send helper forwards port, channel and data in their roles and arms a block-time based timeout; the consumer applies exactly the genesis validator set (or stores it for a changeover and applies it once); genesis import/export of pending packets; collectors and parameter getters used by these rules are exact; every loop of the functions above visits every element.",
	"C02": " Also decided: the two same-typed validator lists keep their roles at every call of a function taking both; list indexes are rebuilt whenever the stored list differs positionally (equalStringSlices is exact).",
	"C03": " Also decided: a present power-shaping section of MsgUpdateConsumer is written on every success path.",
	"C04": " Also decided: the priority index is rebuilt whenever the stored priority list differs positionally.",
	"C05": " Also decided: the active-consumer filter and the lookup loop skip no consumer; genesis import writes both indexes in their roles.",
	"C06": " Also decided: the prune queue key keeps its sortable layout; consumed entries are deleted under their own key; genesis restores the prune queue as exported.",
	"C07": " Also decided: the minimum evidence height is written only by the branch that binds the client (fresh: initial height; re-used: its latest height).",
	"C08": " Also decided: the consumer clears the outstanding flag only on an acknowledgement or for a validator new to its set; genesis keeps acknowledgements and flags with their owners.",
	"C09": " Also decided: the pending-packet index key is big-endian (FIFO read-back); parameter getters return their own parameter; the consumer sends on its recorded channel from its port with the CCV timeout.",
	"C10": " Also decided: queue keys keep their time-sortable layout; free slots are recomputed per timestamp; the launch driver runs every block; present initialization parameters are written; the previous queue entry is removed before a new one is appended.",
	"C11": " Also decided: a STOPPED consumer's deletion cannot fail and every cleanup step is unconditional (channel steps excepted); the removal driver puts surplus ids back into its own queue, runs every block, and is not stopped by one failing deletion; bulk deleters delete the visited entries.",
	"C12": " Also decided: height and id tables keep big-endian keys; genesis import/export keeps every (height, id) pair in its roles and exports every entry.",
	"C13": " Also decided: no loop-carried variable depending on a consumer id is consumed inside a per-consumer loop; bulk deletions delete the visited entries' own keys; collectors return every entry; each iteration's cache is committed inside the iteration.",
	"C14": " Also decided: no errorsmod.Wrap/Wrapf in the modules wraps a possibly-nil error (a rejection cannot silently succeed after its effects).",
	"C15": " Also decided: the M parameter getter returns its own parameter.",
	"C16": " Also decided: ConsensusValidator records (carrying the eligibility clock) are built only by their constructors or copied whole; a present allow-list section (including the empty list) replaces the stored list; parameter getters of the distribution parameters are exact.",
	"C17": " Also decided: the client binding is released by every deletion; launches are committed inside their iteration; genesis restores client and channel bindings in their roles.",
	"C18": " Also decided: maps.Keys/Values results are sorted before any other use.",
	"C19": " Also decided: commits are immediate calls (never deferred); no error result of a module function or keeper interface is dropped outside a fixed table.",
	"C20": " Also decided: the equality helpers compare every field; the schedule lookup scans the whole schedule; the schedule key keeps its time-sortable layout; the applier runs every block.",
}
