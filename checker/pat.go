package main

// Value-origin patterns (A3) and scenario reachability (A4/A5).

import (
	"fmt"
	"go/constant"
	"go/token"
	"go/types"
	"strings"

	"golang.org/x/tools/go/ssa"
)

// Pat matches an SSA value by its origin term.
type Pat func(v ssa.Value) bool

func PAny() Pat { return func(ssa.Value) bool { return true } }

func PParam(name string) Pat { return func(v ssa.Value) bool { return isParam(v, name) } }

// PIs: the value is (structurally) the given value.
func PIs(x ssa.Value) Pat { return func(v ssa.Value) bool { return sameVal(v, x) } }

// PCall: v is result idx (-1 single result, -2 any) of a call to one of specs (";"-separated),
// whose receiver matches recv (nil = any) and whose arguments match args (nil entries = any).
// Phis are expanded: every root must match.
func PCall(specs string, idx int, recv Pat, args ...Pat) Pat {
	sp := strings.Split(specs, ";")
	return func(v ssa.Value) bool {
		rs := roots(v)
		if len(rs) == 0 {
			return false
		}
		for _, r := range rs {
			c, i := callOf(r)
			if c == nil || !isCallTo(c, sp...) {
				return false
			}
			if idx != -2 && i != idx {
				return false
			}
			if recv != nil {
				rv := callRecv(c)
				if rv == nil || !recv(rv) {
					return false
				}
			}
			as := callArgs(c)
			for k, p := range args {
				if p == nil {
					continue
				}
				if k >= len(as) || !p(as[k]) {
					return false
				}
			}
		}
		return true
	}
}

// PField: v is base.path… (field loads), base matching the pattern.
func PField(base Pat, path ...string) Pat {
	return func(v ssa.Value) bool {
		for i := len(path) - 1; i >= 0; i-- {
			b, n, ok := fieldLoadOf(v)
			if !ok || n != path[i] {
				return false
			}
			v = b
		}
		return base(v)
	}
}

func PConstInt(n int64) Pat { return valueIsConstInt(n) }

func POr(ps ...Pat) Pat {
	return func(v ssa.Value) bool {
		for _, p := range ps {
			if p(v) {
				return true
			}
		}
		return false
	}
}

// PBin: v = x op y
func PBin(op token.Token, x, y Pat) Pat {
	return func(v ssa.Value) bool {
		b, ok := strip(v).(*ssa.BinOp)
		return ok && b.Op == op && x(b.X) && y(b.Y)
	}
}

// PDeref: v = *p (load) with p matching
func PDeref(p Pat) Pat {
	return func(v ssa.Value) bool {
		u, ok := strip(v).(*ssa.UnOp)
		return ok && u.Op == token.MUL && p(u.X)
	}
}

// ConstVal resolves a package-level constant (e.g. pt.CONSUMER_PHASE_LAUNCHED) to its integer value.
func (c *Ctx) ConstVal(spec string) (int64, bool) {
	full := q(spec)
	i := strings.LastIndex(full, ".")
	pkg, name := full[:i], full[i+1:]
	sp := c.P.SSAPkgs[pkg]
	if sp == nil {
		sp = c.P.SSA.ImportedPackage(pkg)
	}
	if sp == nil {
		c.Undecided("anchor:"+spec, nil, "anchor-unresolved: package "+pkg)
		return 0, false
	}
	o, ok := sp.Pkg.Scope().Lookup(name).(*types.Const)
	if !ok {
		c.Undecided("anchor:"+spec, nil, "anchor-unresolved: constant "+full)
		return 0, false
	}
	n, exact := constant.Int64Val(o.Val())
	return n, exact
}

// ---- atoms -----------------------------------------------------------------------------------

// Atom is a named boolean fact tested by branch conditions.
type Atom struct {
	Name string
	Fn   AtomFn
}

// errPats: for "call returned a nil error" atoms, the pattern of the error value itself (by atom
// name); lets the decision-table evaluator decide the nil-ness of a returned error value.
var errPats = map[string][]Pat{}

func (a Atom) Not() Atom { return Atom{"¬" + a.Name, notAtom(a.Fn)} }

// ABool: bool result (single or tuple element idx) of a call matching pat.
func ABool(name string, pat Pat) Atom {
	return Atom{name, func(leaf ssa.Value) (bool, bool) {
		if b, ok := leaf.Type().Underlying().(*types.Basic); !ok || b.Kind() != types.Bool {
			return false, false
		}
		if _, isBin := leaf.(*ssa.BinOp); isBin {
			return false, false
		}
		return pat(leaf), true
	}}
}

// AErrNil: "the call matching pat returned a nil error" (pat is matched on the error value).
func AErrNil(name string, pat Pat) Atom {
	errPats[name] = append(errPats[name], pat)
	return Atom{name, func(leaf ssa.Value) (bool, bool) {
		b, ok := leaf.(*ssa.BinOp)
		if !ok || (b.Op != token.EQL && b.Op != token.NEQ) {
			return false, false
		}
		var e ssa.Value
		if isNilConst(b.Y) {
			e = b.X
		} else if isNilConst(b.X) {
			e = b.Y
		} else {
			return false, false
		}
		if !isErrorType(e.Type()) || !pat(e) {
			return false, false
		}
		return true, b.Op == token.EQL
	}}
}

// AEq: "x == y" for values matching px, py in either order.
// ANonNil: the atom "p != nil" (matches == nil and != nil tests of a value matching p).
func ANonNil(name string, p Pat) Atom {
	return Atom{name, cmpAtom(func(op token.Token, x, y ssa.Value) (bool, bool) {
		if (op == token.EQL || op == token.NEQ) && ((p(x) && isNilConst(y)) || (p(y) && isNilConst(x))) {
			return true, op == token.NEQ
		}
		return false, false
	})}
}

// RequestProcessed: when the optional request field is present, every success return of the
// handler passes one of the applying calls.
func (c *Ctx) RequestProcessed(f *ssa.Function, field string, key string, via ...ssa.CallInstruction) {
	has := ANonNil("msg."+field+" != nil", PField(PParam("msg"), field))
	var vs []ssa.Instruction
	for _, v := range via {
		if v == nil {
			return
		}
		vs = append(vs, v)
	}
	n := 0
	for _, r := range successReturns(f) {
		n++
		c.MustPassWhen(r, vs, key, T(has))
	}
	if n == 0 {
		c.Check(false, key, f, "the handler has a success return")
	}
}

func AEq(name string, px, py Pat) Atom { return Atom{name, eqAtom(px, py)} }

// ACmp: ordered comparison "x op y" normalised: the atom holds when (x OP y) for the given OP,
// accepting the mirrored and the negated forms (x<y ≡ y>x ≡ ¬(x>=y)).
func ACmp(name string, op token.Token, px, py Pat) Atom {
	mirror := map[token.Token]token.Token{token.LSS: token.GTR, token.GTR: token.LSS, token.LEQ: token.GEQ, token.GEQ: token.LEQ, token.EQL: token.EQL, token.NEQ: token.NEQ}
	negate := map[token.Token]token.Token{token.LSS: token.GEQ, token.GEQ: token.LSS, token.GTR: token.LEQ, token.LEQ: token.GTR, token.EQL: token.NEQ, token.NEQ: token.EQL}
	return Atom{name, cmpAtom(func(o token.Token, x, y ssa.Value) (bool, bool) {
		// for unsigned x, "x > 0" is also written "x != 0"
		if op == token.GTR && (o == token.NEQ || o == token.EQL) {
			var xv, zv ssa.Value
			if px(x) && py(y) {
				xv, zv = x, y
			} else if px(y) && py(x) {
				xv, zv = y, x
			}
			if xv != nil {
				if z, ok := constInt(zv); ok && z == 0 {
					if bt, ok := xv.Type().Underlying().(*types.Basic); ok && bt.Info()&types.IsUnsigned != 0 {
						return true, o == token.NEQ
					}
				}
			}
		}
		if px(x) && py(y) {
			if o == op {
				return true, true
			}
			if o == negate[op] {
				return true, false
			}
		}
		if px(y) && py(x) {
			if mirror[o] == op {
				return true, true
			}
			if mirror[o] == negate[op] {
				return true, false
			}
		}
		return false, false
	})}
}

// Scenario fixes truth values of atoms.
type Scenario map[*Atom]bool

type Lit struct {
	A   Atom
	Val bool
}

func T(a Atom) Lit { return Lit{a, true} }
func F(a Atom) Lit { return Lit{a, false} }

// reachUnder builds the reachability query for fn in which every branch testing one of the
// literals' atoms can only take the edge consistent with the literal. It returns the query and, per
// literal, the number of branches that test it.
func reachUnder(fn *ssa.Function, lits ...Lit) (*Reach, []int) {
	r := NewReach(fn)
	counts := make([]int, len(lits))
	for i, l := range lits {
		for _, g := range ifsTesting(fn, l.A.Fn) {
			counts[i]++
			b := g.If.Block()
			hold := b.Succs[g.HoldIdx]
			fail := b.Succs[1-g.HoldIdx]
			if l.Val {
				r.CutEdges[edge{b, fail}] = true
			} else {
				r.CutEdges[edge{b, hold}] = true
			}
		}
	}
	return r, counts
}

func litsString(lits []Lit) string {
	var s []string
	for _, l := range lits {
		if l.Val {
			s = append(s, l.A.Name)
		} else {
			s = append(s, "¬"+l.A.Name)
		}
	}
	return strings.Join(s, " ∧ ")
}

// UnreachableWhen records the obligation: under the scenario (every listed atom tested at least
// once), target cannot be reached from the function entry.
func (c *Ctx) UnreachableWhen(target ssa.Instruction, key string, lits ...Lit) bool {
	r, counts := reachUnder(target.Parent(), lits...)
	for i, n := range counts {
		if n == 0 {
			return c.Check(false, key, target, fmt.Sprintf("no branch tests %q in %s (scenario %s)", lits[i].A.Name, shortName(ssaFuncName(target.Parent())), litsString(lits)))
		}
	}
	ok := !r.From(nil)[target]
	return c.Check(ok, key, target, fmt.Sprintf("%s is unreachable when %s", instrLabel(target), litsString(lits)))
}

// ReachableWhen: sanity obligation that the target IS reachable under the scenario (so that the
// complementary "unreachable" obligations are not vacuous).
func (c *Ctx) ReachableWhen(target ssa.Instruction, key string, lits ...Lit) bool {
	r, _ := reachUnder(target.Parent(), lits...)
	ok := r.From(nil)[target]
	return c.Check(ok, key, target, fmt.Sprintf("%s is reachable when %s", instrLabel(target), litsString(lits)))
}

// MustPassWhen: under the scenario, every path from entry to target executes one of via.
func (c *Ctx) MustPassWhen(target ssa.Instruction, via []ssa.Instruction, key string, lits ...Lit) bool {
	r, counts := reachUnder(target.Parent(), lits...)
	for i, n := range counts {
		if n == 0 {
			return c.Check(false, key, target, fmt.Sprintf("no branch tests %q (scenario %s)", lits[i].A.Name, litsString(lits)))
		}
	}
	for _, v := range via {
		r.CutInstrs[v] = true
	}
	var names []string
	for _, v := range via {
		names = append(names, instrLabel(v))
	}
	ok := !r.From(nil)[target]
	when := ""
	if len(lits) > 0 {
		when = " when " + litsString(lits)
	}
	return c.Check(ok, key, target, fmt.Sprintf("every path to %s passes %s%s", instrLabel(target), strings.Join(names, " or "), when))
}

// GuardedBy: target reachable only through edges where each atom holds (conjunction of dominance facts).
func (c *Ctx) GuardedBy(target ssa.Instruction, key string, atoms ...Atom) bool {
	all := true
	for _, a := range atoms {
		ok, n := Guarded(target, a.Fn)
		d := fmt.Sprintf("%s is reached only when %s (%d branch tests)", instrLabel(target), a.Name, n)
		if n == 0 {
			d = fmt.Sprintf("no branch in %s tests %q, which must guard %s", shortName(ssaFuncName(target.Parent())), a.Name, instrLabel(target))
		}
		if !c.Check(ok, key+"/"+a.Name, target, d) {
			all = false
		}
	}
	return all
}

func instrLabel(in ssa.Instruction) string {
	switch x := in.(type) {
	case ssa.CallInstruction:
		return shortName(calleeName(x)) + "()"
	case *ssa.Return:
		if len(x.Results) > 0 {
			last := x.Results[len(x.Results)-1]
			if isErrorType(last.Type()) {
				if isNilConst(last) {
					return "return nil"
				}
				return "return <err>"
			}
		}
		return "return"
	case *ssa.Panic:
		return "panic"
	}
	return in.String()
}

// PGlobal: v is a load of the package-level variable spec (e.g. ccv.V1Result).
func PGlobal(spec string) Pat {
	full := q(spec)
	return func(v ssa.Value) bool {
		g, ok := globalLoad(v)
		if !ok || g.Pkg == nil {
			return false
		}
		return g.Pkg.Pkg.Path()+"."+g.Name() == full
	}
}

// PIndex: v = base[i] for a constant i.
func PIndex(base Pat, i int64) Pat {
	return func(v ssa.Value) bool {
		u, ok := strip(v).(*ssa.UnOp)
		if !ok || u.Op != token.MUL {
			return false
		}
		ia, ok := u.X.(*ssa.IndexAddr)
		if !ok {
			return false
		}
		if n, ok := constInt(ia.Index); !ok || n != i {
			return false
		}
		return base(ia.X)
	}
}

// PElemOf: v is an element (loop variable / indexed read) of a slice matching base.
func PElemOf(base Pat) Pat {
	return func(v ssa.Value) bool {
		rs := elementSource(v)
		if len(rs) == 0 {
			return false
		}
		for _, r := range rs {
			if !base(r) {
				return false
			}
		}
		return true
	}
}

// reachableReturns lists the returns of fn reachable under the scenario.
func reachableReturns(fn *ssa.Function, lits ...Lit) []*ssa.Return {
	r, _ := reachUnder(fn, lits...)
	reach := r.From(nil)
	var out []*ssa.Return
	for _, ret := range Returns(fn) {
		if reach[ret] {
			out = append(out, ret)
		}
	}
	return out
}

// phiValuesUnder: the non-phi values that can flow into v at instruction `at` under the scenario
// (incoming phi edges from blocks unreachable under the scenario, or over cut edges, are dropped).
func valuesUnder(v ssa.Value, fn *ssa.Function, lits ...Lit) []ssa.Value {
	r, _ := reachUnder(fn, lits...)
	reach := r.From(nil)
	blockReach := map[*ssa.BasicBlock]bool{}
	for in := range reach {
		blockReach[in.Block()] = true
	}
	seen := map[ssa.Value]bool{}
	var out []ssa.Value
	var walk func(v ssa.Value)
	walk = func(v ssa.Value) {
		v = strip(v)
		if seen[v] {
			return
		}
		seen[v] = true
		if p, ok := v.(*ssa.Phi); ok {
			b := p.Block()
			for i, e := range p.Edges {
				pred := b.Preds[i]
				if !blockReach[pred] || r.CutEdges[edge{pred, b}] {
					continue
				}
				walk(e)
			}
			return
		}
		// load of a local cell: the stores that can reach this load under the scenario
		if u, ok := v.(*ssa.UnOp); ok && u.Op == token.MUL {
			if a, ok := u.X.(*ssa.Alloc); ok {
				var stores []*ssa.Store
				for _, ref := range *a.Referrers() {
					if st, ok := ref.(*ssa.Store); ok && st.Addr == ssa.Value(a) {
						stores = append(stores, st)
					}
				}
				found := false
				for _, st := range stores {
					if !reach[st] {
						continue
					}
					rq, _ := reachUnder(fn, lits...)
					for _, o := range stores {
						if o != st {
							rq.CutInstrs[o] = true
						}
					}
					if rq.After(st)[u] {
						found = true
						walk(st.Val)
					}
				}
				if found {
					return
				}
			}
		}
		out = append(out, v)
	}
	walk(v)
	return out
}

// NoPathAfterWhen: under the scenario there is no path from `from` (after it executed) to `to`.
func (c *Ctx) NoPathAfterWhen(from, to ssa.Instruction, key string, lits ...Lit) bool {
	r, counts := reachUnder(from.Parent(), lits...)
	for i, n := range counts {
		if n == 0 {
			return c.Check(false, key, to, fmt.Sprintf("no branch tests %q (scenario %s)", lits[i].A.Name, litsString(lits)))
		}
	}
	ok := !r.After(from)[to]
	return c.Check(ok, key, to, fmt.Sprintf("%s is not reachable after %s when %s", instrLabel(to), instrLabel(from), litsString(lits)))
}

// StringConst resolves a package-level string constant (e.g. ccv.ConsumerPortID).
func (c *Ctx) StringConst(spec string) (string, bool) {
	full := q(spec)
	i := strings.LastIndex(full, ".")
	pkg, name := full[:i], full[i+1:]
	sp := c.P.SSAPkgs[pkg]
	if sp == nil {
		sp = c.P.SSA.ImportedPackage(pkg)
	}
	if sp == nil {
		return "", false
	}
	o, ok := sp.Pkg.Scope().Lookup(name).(*types.Const)
	if !ok || o.Val().Kind() != constant.String {
		return "", false
	}
	return constant.StringVal(o.Val()), true
}

// PAddrOf: v is the address of a local cell every store to which matches p (e.g. &pubKey).
func PAddrOf(p Pat) Pat {
	return func(v ssa.Value) bool {
		a, ok := v.(*ssa.Alloc)
		if !ok {
			return false
		}
		n := 0
		for _, r := range *a.Referrers() {
			if st, ok := r.(*ssa.Store); ok && st.Addr == ssa.Value(a) {
				n++
				if !p(st.Val) {
					return false
				}
			}
		}
		return n > 0
	}
}

// ArgRoles: the single call of callee in f receives arguments matching pats (position 1.. after
// ctx; nil = any). Used for restore/forward sites where same-typed values can be swapped.
func (c *Ctx) ArgRoles(f *ssa.Function, callee, key, want string, pats ...Pat) {
	cl := c.one(f, false, callee)
	if cl == nil {
		return
	}
	ok := true
	var found []string
	for i, p := range pats {
		a := arg(cl, i+1)
		if a == nil {
			ok = false
			continue
		}
		found = append(found, describe(a))
		if p != nil && !p(a) {
			ok = false
		}
	}
	c.Check(ok, fk(f, key), cl, want+"; found ("+strings.Join(found, ", ")+")")
}
