package main

// Accessor census (sibling agreement on storage accessors): which key spaces does each keeper
// function touch directly, with which operation, and do the key constructor's arguments and the
// stored value derive from the function's own parameters.

import (
	"fmt"
	"sort"
	"strings"

	"golang.org/x/tools/go/ssa"
)

type storeUse struct {
	Op    string // Get | Set | Delete | Has | Iter
	Space string // leading key-space name ("" unknown)
	Call  ssa.CallInstruction
}

func storeUses(c *Ctx, f *ssa.Function) []storeUse {
	ke := &keyEval{p: c.P}
	var out []storeUse
	var iterSpaces []string
	for _, cl := range AllCalls(f, false) {
		switch {
		case isCallTo(cl, "store.KVStorePrefixIterator", "store.KVStoreReversePrefixIterator"):
			sp := shapeLeading(ke.evalBytes(arg(cl, 1), nil))
			iterSpaces = append(iterSpaces, sp)
			out = append(out, storeUse{"Iter", sp, cl})
		case isCallTo(cl, "store.KVStore.Iterator", "store.KVStore.ReverseIterator"):
			sp := shapeLeading(ke.evalBytes(arg(cl, 0), nil))
			iterSpaces = append(iterSpaces, sp)
			out = append(out, storeUse{"Iter", sp, cl})
		}
	}
	for _, cl := range AllCalls(f, false) {
		op := ""
		switch {
		case isCallTo(cl, "store.KVStore.Get"):
			op = "Get"
		case isCallTo(cl, "store.KVStore.Set"):
			op = "Set"
		case isCallTo(cl, "store.KVStore.Delete"):
			op = "Delete"
		case isCallTo(cl, "store.KVStore.Has"):
			op = "Has"
		default:
			continue
		}
		sp := shapeLeading(ke.evalBytes(arg(cl, 0), nil))
		if sp == "" && len(iterSpaces) > 0 {
			sp = iterSpaces[0] // keys taken from the function's own iterator
		}
		out = append(out, storeUse{op, sp, cl})
	}
	return out
}

// accessorFamily: rule instance "functions whose name contains one of stems touch only key
// spaces in spaces (and at least one of them), and nobody else touches those key spaces directly".
type accessorFamily struct {
	pkg    string   // "pk" or "ck"
	stems  []string // substrings of method names
	spaces []string // key-space names
	extra  []string // further functions allowed to touch the spaces directly (shortName)
}

func checkAccessorFamilies(c *Ctx, fams []accessorFamily) {
	for _, fam := range fams {
		allowedSpace := map[string]bool{}
		for _, s := range fam.spaces {
			allowedSpace[s] = true
		}
		extra := map[string]bool{}
		for _, e := range fam.extra {
			extra[e] = true
		}
		members := 0
		for _, f := range c.P.ModuleFuncs(fam.pkg) {
			if f.Parent() != nil || fnPkgPath(f) != q(fam.pkg) {
				continue
			}
			if o, _ := isOOB(f); o {
				continue
			}
			name := f.Name()
			inFam := false
			for _, st := range fam.stems {
				if strings.Contains(name, st) {
					inFam = true
				}
			}
			uses := storeUses(c, f)
			if len(uses) == 0 {
				continue
			}
			short := shortName(ssaFuncName(f))
			touches := false
			var foreign []string
			for _, u := range uses {
				if allowedSpace[u.Space] {
					touches = true
				} else {
					foreign = append(foreign, u.Op+"("+u.Space+")")
				}
			}
			switch {
			case inFam:
				members++
				sort.Strings(foreign)
				c.Check(touches && len(foreign) == 0, fk(f, "key-space-of-family", strings.Join(fam.spaces, "+")), f,
					"accessor of family {"+strings.Join(fam.stems, ",")+"} touches only key space(s) "+strings.Join(fam.spaces, ",")+"; foreign: "+strings.Join(foreign, " "))
			case touches && !extra[short]:
				c.Check(false, fk(f, "outsider-touches", strings.Join(fam.spaces, "+")), f,
					"key space "+strings.Join(fam.spaces, ",")+" is accessed directly by a function outside its accessor family")
			}
		}
		c.Check(members >= 2, "accessor-family/"+strings.Join(fam.stems, ","), nil, "family has accessors")
	}
}

// checkKeyArgNames: a key constructor parameter named P receives, whenever the calling function
// has a parameter named P of the same type, exactly that parameter (same-typed arguments swapped or
// substituted compile, and read/write another entity's record).
func checkKeyArgNames(c *Ctx, pkgs ...string) {
	n := 0
	for _, f := range c.P.ModuleFuncs(pkgs...) {
		if o, _ := isOOB(f); o || f.Parent() != nil {
			continue
		}
		own := map[string]*ssa.Parameter{}
		for _, p := range f.Params {
			own[p.Name()] = p
		}
		for _, cl := range AllCalls(f, false) {
			callee := cl.Common().StaticCallee()
			if callee == nil || !isKeysPkgTypes(fnPkgPath(callee)) || !returnsBytes(callee) {
				continue
			}
			for i, cp := range callee.Params {
				if i >= len(cl.Common().Args) {
					continue
				}
				mine, ok := own[cp.Name()]
				if !ok || mine.Type().String() != cp.Type().String() {
					continue
				}
				n++
				a := cl.Common().Args[i]
				if why, ok := keyArgExceptions[shortName(ssaFuncName(f))+"/"+callee.Name()+"/"+cp.Name()]; ok {
					if strip(a) != ssa.Value(mine) {
						c.Check(true, fk(f, "key-arg", callee.Name(), cp.Name(), "exception"), cl, "accepted: "+why)
						continue
					}
				}
				okA := strip(a) == ssa.Value(mine) || isDerefOfParam(a, mine)
				c.Check(okA, fk(f, "key-arg", callee.Name(), cp.Name()), cl, "key constructor parameter "+cp.Name()+" receives the function's own "+cp.Name()+"; found "+describe(a))
			}
		}
	}
	c.Check(n >= 3, "key-arg-names/"+strings.Join(pkgs, ","), nil, fmt.Sprintf("%d key-constructor arguments examined", n))
}

// (function/constructor/parameter) sites where a different value is intended, with the reason
var keyArgExceptions = map[string]string{
	"keeper.Keeper.SetConsumerClientId/ClientIdToConsumerIdKey/clientId": "one of the two uses deletes the reverse entry of the PREVIOUS client (looked up from the forward index) before rebinding",
}

func isKeysPkgTypes(p string) bool { return p == q("pt") || p == q("ct") }

// dependsOn: backward dependence of v on target through operands, call arguments/receivers and
// local buffers (a buffer depends on everything passed together with it to a call, e.g.
// binary.BigEndian.PutUint64(buf, x)).
func dependsOn(v ssa.Value, target ssa.Value, depth int, seen map[ssa.Value]bool) bool {
	if v == nil || depth > 12 {
		return false
	}
	if seen[v] {
		return false
	}
	seen[v] = true
	if v == target {
		return true
	}
	switch x := v.(type) {
	case *ssa.Alloc:
		for _, r := range *x.Referrers() {
			switch y := r.(type) {
			case *ssa.Store:
				if y.Addr == ssa.Value(x) && dependsOn(y.Val, target, depth+1, seen) {
					return true
				}
			case *ssa.FieldAddr, *ssa.IndexAddr:
				for _, rr := range *y.(ssa.Value).Referrers() {
					if st, ok := rr.(*ssa.Store); ok && st.Addr == y.(ssa.Value) && dependsOn(st.Val, target, depth+1, seen) {
						return true
					}
				}
			case ssa.CallInstruction:
				for _, a := range y.Common().Args {
					if a != ssa.Value(x) && dependsOn(a, target, depth+1, seen) {
						return true
					}
				}
			}
		}
		return false
	case *ssa.MakeSlice:
		for _, r := range *x.Referrers() {
			if cl, ok := r.(ssa.CallInstruction); ok {
				for _, a := range cl.Common().Args {
					if a != ssa.Value(x) && dependsOn(a, target, depth+1, seen) {
						return true
					}
				}
			}
		}
		return false
	case *ssa.Slice:
		// slice of a local array buffer
		if dependsOn(x.X, target, depth+1, seen) {
			return true
		}
		for _, r := range *x.Referrers() {
			if cl, ok := r.(ssa.CallInstruction); ok {
				for _, a := range cl.Common().Args {
					if a != ssa.Value(x) && dependsOn(a, target, depth+1, seen) {
						return true
					}
				}
			}
		}
		return false
	}
	if in, ok := v.(ssa.Instruction); ok {
		for _, op := range in.Operands(nil) {
			if *op != nil && dependsOn(*op, target, depth+1, seen) {
				return true
			}
		}
	}
	return false
}

// checkSetterValues: every keeper method named Set*/Append* that writes the store stores bytes that
// depend on its last parameter (the value), and its key depends on every other non-context
// parameter.
func checkSetterValues(c *Ctx, pkg string, stems []string) {
	n := 0
	for _, f := range c.P.ModuleFuncs(pkg) {
		if f.Parent() != nil || fnPkgPath(f) != q(pkg) || !(strings.HasPrefix(f.Name(), "Set") || strings.HasPrefix(f.Name(), "set")) {
			continue
		}
		in := len(stems) == 0
		for _, st := range stems {
			if strings.Contains(f.Name(), st) {
				in = true
			}
		}
		if !in {
			continue
		}
		sets := Calls(f, false, "store.KVStore.Set")
		if len(sets) == 0 {
			continue
		}
		var params []*ssa.Parameter
		for i, p := range f.Params {
			if i == 0 && f.Signature.Recv() != nil {
				continue
			}
			if isCtxType(p.Type()) {
				continue
			}
			params = append(params, p)
		}
		if len(params) == 0 {
			continue
		}
		n++
		val := params[len(params)-1]
		keys := params[:len(params)-1]
		if len(params) == 1 {
			// single parameter: it is either the value of a singleton or the key of a flag entry
			okAny := false
			for _, s := range sets {
				if dependsOn(arg(s, 1), val, 0, map[ssa.Value]bool{}) || dependsOn(arg(s, 0), val, 0, map[ssa.Value]bool{}) {
					okAny = true
				}
			}
			c.Check(okAny, fk(f, "stores-parameter"), f, "the parameter "+val.Name()+" determines the key or the stored value")
			continue
		}
		okVal := false
		for _, s := range sets {
			if dependsOn(arg(s, 1), val, 0, map[ssa.Value]bool{}) || dependsOn(arg(s, 0), val, 0, map[ssa.Value]bool{}) {
				okVal = true
			}
		}
		c.Check(okVal, fk(f, "stores-value-parameter"), f, "the stored bytes (or the key of a flag entry) derive from the parameter "+val.Name())
		for _, kp := range keys {
			okK := false
			for _, s := range sets {
				if dependsOn(arg(s, 0), kp, 0, map[ssa.Value]bool{}) {
					okK = true
				}
			}
			c.Check(okK, fk(f, "key-from-parameter", kp.Name()), f, "the key derives from the parameter "+kp.Name())
		}
	}
	c.Check(n >= 1, "setters/"+pkg+"/"+strings.Join(stems, ","), nil, "setter functions examined")
}

// checkParamGetters: a keeper method GetX that returns a field of the module parameters returns the
// field whose name corresponds to X (same-typed parameters are interchangeable for the compiler).
func checkParamGetters(c *Ctx, pkg string, getters ...string) {
	for _, g := range getters {
		f := c.Fn(pkg + ".Keeper." + g)
		if f == nil {
			continue
		}
		stem := strings.ToLower(strings.TrimPrefix(g, "Get"))
		n := 0
		for _, r := range Returns(f) {
			if len(r.Results) == 0 {
				continue
			}
			for _, root := range roots(r.Results[0]) {
				base, name, ok := fieldLoadOf(root)
				if !ok {
					continue
				}
				cl, _ := callOf(base)
				if cl == nil || !(isCallTo(cl, "pk.Keeper.GetParams") || isCallTo(cl, "ck.Keeper.GetConsumerParams")) {
					continue
				}
				n++
				c.Check(strings.HasPrefix(strings.ToLower(name), stem), fk(f, "returns-own-parameter"), r, g+" returns the module parameter of the same name; found field "+name)
			}
		}
		c.Check(n > 0, fk(f, "reads-module-parameters"), f, g+" reads a field of the module parameters")
	}
}
