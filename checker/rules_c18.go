package main

import (
	"fmt"
	"go/types"
	"strings"

	"golang.org/x/tools/go/ssa"
)

func init() {
	register(&propDef{
		ID: "C18",
		Explanation: "Whole-scope hazard scan over every function, method and closure of the module packages (x/ccv/** except CLI code): no wall-clock, randomness, environment, scheduler or runtime queries; no goroutines or select; no pointer-to-integer conversions or %p formatting; no floating-point arithmetic; " +
			"every range over a map either has an order-insensitive body (only map/set updates, lookups and pure computations) or collects into a slice that is sorted by a total order before any other use. For module code this is close to the whole statement of the property; dependencies and the Go runtime are trusted.",
		NotDecided: []string{"bit-identical behaviour of cosmos-sdk, ibc-go, CometBFT and the Go runtime", "determinism of externally supplied inputs (transactions, relayed packets) themselves"},
		Run:        runC18,
	})
}

// forbidden callees (prefix match on canonical names)
var nondetCallees = []string{
	"time.Now", "time.Since", "time.Until", "time.After", "time.Tick", "time.NewTimer", "time.NewTicker", "time.Sleep",
	"math/rand.", "math/rand/v2.", "crypto/rand.",
	"os.Getenv", "os.Environ", "os.LookupEnv", "os.Hostname", "os.Getpid", "os.Getwd", "os.ReadFile", "os.Open",
	"runtime.NumGoroutine", "runtime.GOMAXPROCS", "runtime.NumCPU", "runtime.Stack", "runtime.Caller", "runtime.ReadMemStats", "runtime.GC",
	"reflect.Value.Pointer", "reflect.Value.UnsafeAddr",
	"sync.Map.Range",
}

// accepted uses, keyed by function, with the reason
var nondetOK = map[string]map[string]string{
	"distribution.AppModule.BeginBlock": {"time.Now": "only use is telemetry.ModuleMeasureSince (metrics, not state)"},
}

var extraC18 func(c *Ctx, fns []*ssa.Function)

func runC18(c *Ctx) {
	pkgs := []string{"pk", "pt", "ck", "ct", "provider", "consumer", "ccv", "demodist", "nvstaking", "nvgenutil", modPath + "/x/ccv/democracy", modPath + "/x/ccv/provider/migrations", modPath + "/x/ccv/consumer/migrations"}
	var fns []*ssa.Function
	seen := map[*ssa.Function]bool{}
	for _, f := range c.P.ModuleFuncs(pkgs...) {
		file := c.P.fileOf(f)
		if strings.Contains(fnPkgPath(f), "/client") || strings.HasSuffix(file, ".pb.go") || strings.HasSuffix(file, ".pb.gw.go") || strings.Contains(fnPkgPath(f), "/simulation") {
			continue
		}
		if !seen[f] {
			seen[f] = true
			fns = append(fns, f)
		}
	}

	// ---- R1 ------------------------------------------------------------------------------------
	c.Rule("R1", "no nondeterminism source in module code: wall clock, randomness, environment, runtime/scheduler queries, goroutines, select, pointer->integer conversion, %p formatting, floating-point arithmetic", 1)
	bad := 0
	for _, f := range fns {
		top := shortName(ssaFuncName(topFn(f)))
		for _, in := range allInstrs(f) {
			switch x := in.(type) {
			case *ssa.Go:
				bad++
				c.Check(false, fk(topFn(f), "go-statement"), in, "goroutine started in state-machine code")
			case *ssa.Select:
				bad++
				c.Check(false, fk(topFn(f), "select-statement"), in, "select in state-machine code")
			case ssa.CallInstruction:
				n := calleeName(x)
				for _, p := range nondetCallees {
					if n == p || (strings.HasSuffix(p, ".") && strings.HasPrefix(n, p)) {
						if why, ok := nondetOK[top][strings.TrimSuffix(p, ".")]; ok && telemetryOnly(x) {
							c.Check(true, fk(topFn(f), "accepted", n), in, "accepted: "+why)
							continue
						}
						bad++
						c.Check(false, fk(topFn(f), "nondeterministic-call", shortName(n)), in, "call to "+n+" in state-machine code")
					}
				}
				// %p formatting
				if strings.HasPrefix(n, "fmt.") || strings.HasSuffix(n, "Errorf") || strings.HasSuffix(n, "Wrapf") {
					for _, a := range x.Common().Args {
						if s, ok := constString(a); ok && strings.Contains(s, "%p") {
							bad++
							c.Check(false, fk(topFn(f), "pointer-formatting"), in, "%p formats a memory address")
						}
					}
				}
			case *ssa.Convert:
				if isUnsafePointer(x.X.Type()) && isUintptr(x.Type()) {
					bad++
					c.Check(false, fk(topFn(f), "pointer-to-integer"), in, "unsafe.Pointer converted to an integer")
				}
			case *ssa.BinOp:
				if b, ok := x.Type().Underlying().(*types.Basic); ok && b.Info()&types.IsFloat != 0 {
					bad++
					c.Check(false, fk(topFn(f), "float-arithmetic"), in, "floating-point arithmetic in state-machine code")
				}
			}
		}
	}
	c.Check(len(fns) >= 850, "module/functions-scanned", nil, fmt.Sprintf("%d functions, methods and closures scanned; %d hazards", len(fns), bad))

	// ---- R2 ------------------------------------------------------------------------------------
	c.Rule("R2", "every range over a map is order-insensitive (body only updates maps/sets, looks up, computes) or collects into a slice that reaches sort.* with a total order before any other use", 5)
	nRange := 0
	for _, f := range fns {
		for _, in := range allInstrs(f) {
			rg, ok := in.(*ssa.Range)
			if !ok {
				continue
			}
			if _, isMap := rg.X.Type().Underlying().(*types.Map); !isMap {
				continue
			}
			nRange++
			ok2, why := mapRangeOK(f, rg)
			c.Check(ok2, fk(topFn(f), "map-range", describe(rg.X)), in, why)
		}
	}
	c.Check(nRange >= 3, "module/map-ranges", nil, fmt.Sprintf("%d ranges over maps examined", nRange))
	// library helpers that return a map's keys or values in iteration order are ranges over a map too
	for _, f := range fns {
		for _, cl := range AllCalls(f, false) {
			n := calleeName(cl)
			isMapOrder := false
			for _, pre := range []string{"golang.org/x/exp/maps.Keys", "golang.org/x/exp/maps.Values", "maps.Keys", "maps.Values", "maps.All"} {
				if n == pre || strings.HasPrefix(n, pre+"[") {
					isMapOrder = true
				}
			}
			if !isMapOrder {
				continue
			}
			v := cl.Value()
			okSorted := v != nil
			var sorts []ssa.Instruction
			if v != nil {
				for _, r := range *v.Referrers() {
					if rc, isCall := r.(ssa.CallInstruction); isCall {
						rn := calleeName(rc)
						if strings.HasPrefix(rn, "sort.") || strings.HasPrefix(rn, "slices.Sort") {
							sorts = append(sorts, r)
						}
					}
				}
				for _, r := range *v.Referrers() {
					if _, isDbg := r.(*ssa.DebugRef); isDbg {
						continue
					}
					isSort := false
					for _, sr := range sorts {
						if sr == r {
							isSort = true
						}
					}
					if !isSort && (len(sorts) == 0 || !mustPassBefore(r, sorts...)) {
						okSorted = false
					}
				}
			}
			c.Check(okSorted, fk(topFn(f), "map-order-helper", shortName(n)), cl, shortName(n)+" returns entries in map iteration order; the result must be sorted before any other use")
		}
	}

	if extraC18 != nil {
		extraC18(c, fns)
	}

	// ---- R3 ------------------------------------------------------------------------------------
	c.Rule("R3", "sorts used on consensus-relevant data are total or stable on a deterministic input order: every sort.Slice comparator in module code is listed with the reason its ties are harmless or absent", 6)
	for _, f := range fns {
		for _, cl := range Calls(f, false, "sort.Slice") {
			top := shortName(ssaFuncName(topFn(f)))
			why, ok := sortOK[top]
			c.Check(ok, fk(topFn(f), "sort.Slice"), cl, "sort.Slice (unstable) in "+top+": "+why)
		}
	}
}

// sort.Slice sites: reason why ties do not make the result depend on anything but the (deterministic) input order
var sortOK = map[string]string{
	"types.AccumulateChanges":                    "comparator falls back to the unique PubKey string: total order",
	"keeper.Keeper.ComputeMinPowerInTopN":        "sorts plain int64 powers: equal elements are indistinguishable",
	"keeper.NoMoreThanPercentOfTheSum":           "input order is deterministic (KV/staking order) and pdqsort is a deterministic algorithm; ties keep a deterministic, if unspecified, order",
	"keeper.Keeper.PartitionBasedOnPriorityList": "input order is deterministic and the sort algorithm is deterministic",
	"keeper.Keeper.ComputeNextValidators":        "input order is staking's deterministic order and the sort algorithm is deterministic (see known finding C02.R6 for the semantic issue with ties)",
	"keeper.Keeper.QueryConsumerValidators":      "query handler (read-only; not part of the replicated state transition)",
}

func telemetryOnly(cl ssa.CallInstruction) bool {
	v := cl.Value()
	if v == nil {
		return false
	}
	for _, r := range *v.Referrers() {
		switch x := r.(type) {
		case *ssa.DebugRef:
		case ssa.CallInstruction:
			if !strings.Contains(calleeName(x), "telemetry.") {
				return false
			}
		default:
			return false
		}
	}
	return true
}

func isUnsafePointer(t types.Type) bool {
	b, ok := t.Underlying().(*types.Basic)
	return ok && b.Kind() == types.UnsafePointer
}

func isUintptr(t types.Type) bool {
	b, ok := t.Underlying().(*types.Basic)
	return ok && b.Kind() == types.Uintptr
}

// mapRangeOK decides one range-over-map loop.
func mapRangeOK(f *ssa.Function, rg *ssa.Range) (bool, string) {
	// the Next instruction and the loop body
	var next *ssa.Next
	for _, r := range *rg.Referrers() {
		if n, ok := r.(*ssa.Next); ok {
			next = n
		}
	}
	if next == nil {
		return true, "range value unused"
	}
	after := NewReach(f).After(next)
	var body []ssa.Instruction
	for in := range after {
		if NewReach(f).After(in)[next] && in != ssa.Instruction(next) {
			body = append(body, in)
		}
	}
	var appended []ssa.Value
	for _, in := range body {
		switch x := in.(type) {
		case *ssa.MapUpdate, *ssa.Lookup, *ssa.Extract, *ssa.If, *ssa.Jump, *ssa.Phi, *ssa.BinOp, *ssa.UnOp, *ssa.FieldAddr, *ssa.Field, *ssa.IndexAddr, *ssa.Index,
			*ssa.Convert, *ssa.ChangeType, *ssa.MakeInterface, *ssa.Alloc, *ssa.Slice, *ssa.DebugRef, *ssa.TypeAssert, *ssa.ChangeInterface:
			// order-insensitive
		case *ssa.Store:
			// stores into loop-local temporaries (varargs arrays, struct literals) are fine; stores into
			// outer cells carry the last-iteration value: order-sensitive unless it is the slice being collected
			if cellOf(x.Addr) != nil && !definedIn(cellOf(x.Addr), body) {
				if cl, _ := callOf(x.Val); cl != nil && isCallTo(cl, "builtin.append") {
					appended = append(appended, cellOf(x.Addr))
					continue
				}
				return false, "the loop body assigns an outer variable (last iteration wins): order-sensitive"
			}
		case ssa.CallInstruction:
			n := calleeName(x)
			switch {
			case n == "builtin.append":
				appended = append(appended, x.Value())
			case n == "builtin.len", n == "builtin.delete" && false:
			case strings.HasSuffix(n, ".String"), strings.HasPrefix(n, "strings."), strings.HasPrefix(n, "bytes.Equal"), n == "builtin.copy" && false:
			default:
				return false, "the loop body calls " + shortName(n) + " (possible order-sensitive effect)"
			}
		case *ssa.Return:
			return false, "the loop body returns (first match depends on iteration order)"
		default:
			return false, fmt.Sprintf("unrecognised instruction in map-range body: %T", in)
		}
	}
	if len(appended) == 0 {
		return true, "order-insensitive body (map/set updates, lookups, pure computation)"
	}
	// the collected slice must be sorted before any return
	var sorts []ssa.Instruction
	for _, cl := range AllCalls(f, false) {
		n := calleeName(cl)
		if n != "sort.Strings" && n != "sort.Slice" && n != "sort.SliceStable" && n != "sort.Ints" && n != "sort.Sort" && n != "sort.Stable" {
			continue
		}
		a := sliceOfIface(arg(cl, 0))
		if n == "sort.Sort" || n == "sort.Stable" {
			// only the total orders of package sort's own slice types are accepted
			t := a.Type().String()
			if t != "sort.StringSlice" && t != "sort.IntSlice" {
				continue
			}
			a = strip(a)
		}
		for _, ap := range appended {
			if sharesRoots(a, ap) || cellOf(a) != nil && cellOf(a) == ap {
				if n == "sort.Slice" || n == "sort.SliceStable" {
					if !totalComparator(arg(cl, 1)) {
						return false, "the collected slice is sorted with a comparator that has no tie-break on a unique key"
					}
				}
				sorts = append(sorts, cl)
			}
		}
	}
	if len(sorts) == 0 {
		return false, "elements are collected in map iteration order and never sorted"
	}
	for _, r := range Returns(f) {
		if NewReach(f).After(next)[r] && !mustPassFrom(next, r, sorts) {
			return false, "a path from the loop to a return does not pass the sort"
		}
	}
	return true, "collected into a slice that is sorted by a total order before the function returns"
}

// mustPassFrom: every path from `from` to `to` passes one of via.
func mustPassFrom(from, to ssa.Instruction, via []ssa.Instruction) bool {
	rq := NewReach(from.Parent())
	for _, v := range via {
		rq.CutInstrs[v] = true
	}
	return !rq.After(from)[to]
}

func cellOf(v ssa.Value) ssa.Value {
	switch x := v.(type) {
	case *ssa.Alloc:
		return x
	case *ssa.UnOp:
		if a, ok := x.X.(*ssa.Alloc); ok {
			return a
		}
	case *ssa.FreeVar:
		return x
	}
	return nil
}

func definedIn(v ssa.Value, body []ssa.Instruction) bool {
	for _, in := range body {
		if vi, ok := in.(ssa.Value); ok && vi == v {
			return true
		}
	}
	return false
}

// totalComparator: the less function ends with a comparison of strings (tie-break on a unique key).
func totalComparator(v ssa.Value) bool {
	mc, ok := v.(*ssa.MakeClosure)
	if !ok {
		return false
	}
	fn, ok := mc.Fn.(*ssa.Function)
	if !ok {
		return false
	}
	for _, r := range Returns(fn) {
		if b, ok := r.Results[0].(*ssa.BinOp); ok {
			if bt, ok := b.X.Type().Underlying().(*types.Basic); ok && bt.Info()&types.IsString != 0 {
				return true
			}
		}
	}
	return false
}

// ---- R4: address-formatting hazard ------------------------------------------------------------------

// fmtVerbArgs pairs the verbs of a constant format string with the variadic arguments.
func fmtVerbArgs(format string, args []ssa.Value) [][2]interface{} {
	var out [][2]interface{}
	ai := 0
	for i := 0; i < len(format); i++ {
		if format[i] != '%' {
			continue
		}
		j := i + 1
		for j < len(format) && strings.ContainsRune("+-# 0123456789.*[]", rune(format[j])) {
			j++
		}
		if j >= len(format) {
			break
		}
		verb := format[j]
		i = j
		if verb == '%' {
			continue
		}
		if ai < len(args) {
			out = append(out, [2]interface{}{string(verb), args[ai]})
		}
		ai++
	}
	return out
}

// printsAddress: formatting a value of type t with %v/%s/%+v can print a memory address.
func printsAddress(t types.Type, depth int, top bool) bool {
	if depth > 4 {
		return false
	}
	if hasStringOrError(t) {
		return false
	}
	switch u := t.Underlying().(type) {
	case *types.Pointer:
		if top {
			// fmt prints &{…} for a top-level pointer to struct/array/slice/map, an address otherwise
			switch u.Elem().Underlying().(type) {
			case *types.Struct, *types.Array, *types.Slice, *types.Map:
				return printsAddress(u.Elem(), depth+1, false)
			}
		}
		return true
	case *types.Chan, *types.Signature:
		return true
	case *types.Basic:
		return u.Kind() == types.UnsafePointer
	case *types.Struct:
		for i := 0; i < u.NumFields(); i++ {
			if printsAddress(u.Field(i).Type(), depth+1, false) {
				return true
			}
		}
	case *types.Array:
		return printsAddress(u.Elem(), depth+1, false)
	case *types.Slice:
		return printsAddress(u.Elem(), depth+1, false)
	case *types.Map:
		return printsAddress(u.Elem(), depth+1, false) || printsAddress(u.Key(), depth+1, false)
	case *types.Interface:
		// dynamic value unknown: an interface-typed field may hold a pointer (the proto oneof idiom)
		return !top
	}
	return false
}

func hasStringOrError(t types.Type) bool {
	for _, tt := range []types.Type{t} {
		ms := types.NewMethodSet(tt)
		for i := 0; i < ms.Len(); i++ {
			n := ms.At(i).Obj().Name()
			if n == "String" || n == "Error" || n == "Format" || n == "GoString" {
				return true
			}
		}
	}
	return false
}

func init() {
	extraC18 = func(c *Ctx, fns []*ssa.Function) {
		c.Rule("R4", "no address formatting: no %v/%+v/%s formatting (fmt.Errorf/Sprintf, errorsmod.Wrapf, …) of a value whose printed form contains a memory address (a by-value struct with pointer or interface fields and no String method, a nested pointer, chan or func)", 1)
		n, bad := 0, 0
		for _, f := range fns {
			for _, cl := range AllCalls(f, false) {
				name := calleeName(cl)
				if !(strings.HasPrefix(name, "fmt.") || strings.HasPrefix(name, "cosmossdk.io/errors.")) {
					continue
				}
				args := cl.Common().Args
				if cl.Common().IsInvoke() {
					continue
				}
				fi := -1
				for i, a := range args {
					if _, ok := constString(a); ok {
						fi = i
						break
					}
				}
				if fi < 0 || fi+1 >= len(args) {
					continue
				}
				format, _ := constString(args[fi])
				for _, va := range fmtVerbArgs(format, variadicValues(args[fi+1])) {
					verb := va[0].(string)
					if verb != "v" && verb != "s" {
						continue
					}
					v, _ := va[1].(ssa.Value)
					if v == nil {
						continue
					}
					n++
					t := v.Type()
					if mi, ok := v.(*ssa.MakeInterface); ok {
						t = mi.X.Type()
					}
					if printsAddress(t, 0, true) {
						bad++
						c.Check(false, fk(topFn(f), "address-formatting", shortName(name)), cl, "formats a value of type "+t.String()+" with %"+verb+": its printed form contains a memory address")
					}
				}
			}
		}
		c.Check(n >= 100, "module/format-arguments", nil, fmt.Sprintf("%d %%v/%%s format arguments examined, %d hazards", n, bad))
	}
}
