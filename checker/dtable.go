package main

// A5: decision-table extraction for loop-free predicate functions. Atoms are opaque boolean
// facts (call results, comparisons); all 2^n assignments are enumerated; under each assignment the
// CFG is pruned (including branches on phis whose incoming values are themselves determined by the
// assignment) and the returned value is evaluated. Exhaustive over a finite domain.

import (
	"fmt"
	"go/token"
	"sort"
	"strings"

	"golang.org/x/tools/go/ssa"
)

// evalLeaf: value of a boolean leaf under the literals (+1 true, -1 false, 0 unknown).
func evalLeafUnder(leaf ssa.Value, lits []Lit) int {
	if b, ok := constBool(leaf); ok {
		if b {
			return 1
		}
		return -1
	}
	for _, l := range lits {
		m, hold := l.A.Fn(leaf)
		if !m {
			continue
		}
		// atom value = l.Val; leaf true <=> atom == hold... leaf true means atom holds iff hold
		v := l.Val == hold
		if v {
			return 1
		}
		return -1
	}
	return 0
}

// scenarioReach prunes fn's CFG under the literals, resolving branches on phis to fixpoint.
func scenarioReach(fn *ssa.Function, lits []Lit) *Reach {
	r := NewReach(fn)
	for changed, iter := true, 0; changed && iter < 10; iter++ {
		changed = false
		reach := r.From(nil)
		live := map[*ssa.BasicBlock]bool{}
		for in := range reach {
			live[in.Block()] = true
		}
		for _, b := range fn.Blocks {
			if !live[b] {
				continue
			}
			iff, ok := b.Instrs[len(b.Instrs)-1].(*ssa.If)
			if !ok {
				continue
			}
			v := evalCondUnder(iff.Cond, r, live, lits)
			if v == 0 {
				continue
			}
			cut := edge{b, b.Succs[1]}
			if v < 0 {
				cut = edge{b, b.Succs[0]}
			}
			if !r.CutEdges[cut] {
				r.CutEdges[cut] = true
				changed = true
			}
		}
	}
	return r
}

func evalCondUnder(cond ssa.Value, r *Reach, live map[*ssa.BasicBlock]bool, lits []Lit) int {
	l := normCond(cond)
	v := evalValueUnder(l.V, r, live, lits, 0)
	if l.Neg {
		return -v
	}
	return v
}

func evalValueUnder(v ssa.Value, r *Reach, live map[*ssa.BasicBlock]bool, lits []Lit, depth int) int {
	if depth > 10 {
		return 0
	}
	if ph, ok := v.(*ssa.Phi); ok {
		res := 0
		first := true
		b := ph.Block()
		for i, e := range ph.Edges {
			pred := b.Preds[i]
			if !live[pred] || r.CutEdges[edge{pred, b}] {
				continue
			}
			// the edge must actually be takable: pred's branch may have been cut
			ev := evalCondUnderNoNorm(e, r, live, lits, depth+1)
			if first {
				res, first = ev, false
			} else if ev != res {
				return 0
			}
		}
		return res
	}
	return evalLeafUnder(v, lits)
}

func evalCondUnderNoNorm(v ssa.Value, r *Reach, live map[*ssa.BasicBlock]bool, lits []Lit, depth int) int {
	l := normCond(v)
	x := evalValueUnder(l.V, r, live, lits, depth)
	if l.Neg {
		return -x
	}
	return x
}

// TruthTable enumerates all assignments of atoms and returns, per assignment, the set of
// (result strings) of the reachable returns. resultOf renders one return under the scenario.
type ttRow struct {
	Assign  []bool
	Results []string
}

func truthTable(fn *ssa.Function, atoms []Atom) []ttRow {
	n := len(atoms)
	var rows []ttRow
	for mask := 0; mask < 1<<n; mask++ {
		lits := make([]Lit, n)
		assign := make([]bool, n)
		for i := range atoms {
			assign[i] = mask&(1<<i) != 0
			lits[i] = Lit{atoms[i], assign[i]}
		}
		r := scenarioReach(fn, lits)
		reach := r.From(nil)
		live := map[*ssa.BasicBlock]bool{}
		for in := range reach {
			live[in.Block()] = true
		}
		set := map[string]bool{}
		for _, ret := range Returns(fn) {
			if !reach[ret] {
				continue
			}
			var parts []string
			for _, res := range ret.Results {
				parts = append(parts, renderResult(res, r, live, lits))
			}
			set[strings.Join(parts, ",")] = true
		}
		var rs []string
		for s := range set {
			rs = append(rs, s)
		}
		sort.Strings(rs)
		rows = append(rows, ttRow{assign, rs})
	}
	return rows
}

func renderResult(v ssa.Value, r *Reach, live map[*ssa.BasicBlock]bool, lits []Lit) string {
	if isErrorType(v.Type()) {
		// nil or not
		allNil, anyNil := true, false
		var walk func(v ssa.Value, d int)
		walk = func(v ssa.Value, d int) {
			if ph, ok := v.(*ssa.Phi); ok && d < 10 {
				b := ph.Block()
				for i, e := range ph.Edges {
					if !live[b.Preds[i]] || r.CutEdges[edge{b.Preds[i], b}] {
						continue
					}
					walk(e, d+1)
				}
				return
			}
			if isNilConst(v) {
				anyNil = true
				return
			}
			// an error value whose nil-ness is fixed by the scenario
			for _, l := range lits {
				for _, ep := range errPats[l.A.Name] {
					if ep(v) {
						if l.Val {
							anyNil = true
						} else {
							allNil = false
						}
						return
					}
				}
			}
			allNil = false
		}
		walk(v, 0)
		switch {
		case allNil:
			return "nil"
		case !anyNil:
			return "err"
		}
		return "nil|err"
	}
	switch evalCondUnderNoNorm(v, r, live, lits, 0) {
	case 1:
		return "T"
	case -1:
		return "F"
	}
	return "?" + describe(v)
}

// CheckTable compares the extracted table with the specification.
func (c *Ctx) CheckTable(fn *ssa.Function, key string, atoms []Atom, spec func(a map[string]bool) string) {
	// every atom must be tested somewhere (or appear as a returned leaf)
	rows := truthTable(fn, atoms)
	bad := 0
	var witness string
	for _, row := range rows {
		a := map[string]bool{}
		var desc []string
		for i, at := range atoms {
			a[at.Name] = row.Assign[i]
			if row.Assign[i] {
				desc = append(desc, at.Name)
			} else {
				desc = append(desc, "¬"+at.Name)
			}
		}
		want := spec(a)
		norm := func(rs []string) []string {
			// when an error is returned the boolean result is immaterial to every caller in this code base
			var out []string
			seen := map[string]bool{}
			for _, r := range rs {
				if strings.HasSuffix(r, ",err") {
					r = "F,err"
				}
				if !seen[r] {
					seen[r] = true
					out = append(out, r)
				}
			}
			return out
		}
		got := strings.Join(norm(row.Results), " / ")
		okRow := false
		for _, alt := range strings.Split(want, "|") {
			if got == alt {
				okRow = true
			}
		}
		if !okRow {
			bad++
			if witness == "" {
				witness = fmt.Sprintf("under %s the function returns (%s), specification says (%s)", strings.Join(desc, " ∧ "), got, want)
			}
		}
	}
	var names []string
	for _, a := range atoms {
		names = append(names, a.Name)
	}
	if bad == 0 {
		c.Check(true, key, fn, fmt.Sprintf("decision table over %d atoms {%s}: all %d rows agree with the specification", len(atoms), strings.Join(names, "; "), len(rows)))
	} else {
		c.Check(false, key, fn, fmt.Sprintf("decision table: %d of %d rows differ; %s", bad, len(rows), witness))
	}
}

var _ = token.ADD
