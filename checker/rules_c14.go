package main

import (
	"fmt"
	"go/token"
	"os"
	"path/filepath"
	"regexp"
	"strings"

	"golang.org/x/tools/go/ssa"
)

func init() {
	register(&propDef{
		ID: "C14",
		Explanation: "Decides the authorisation guards of every message handler: governance-only handlers write only after authority == msg.Authority; UpdateConsumer/RemoveConsumer write only after msg.Owner == stored owner of msg.ConsumerId; the owner record is written only at creation (submitter) and by the owner-checked update; " +
			"a Top-N value exists only under governance ownership (creation rejects Top_N != 0; the update rejects Top_N > 0 for a non-governance owner before writing and re-checks the final owner/Top-N pair before accepting; no other run-time writer of the parameters); Top_N is validated to {0} U [50,100] by the ValidateBasic of create and update; " +
			"the four validator messages validate that the operator address is the signer's own (validateProviderAddress) and their handlers act only on the validator looked up from msg.ProviderAddr; tx.proto names the corresponding field as signer; every rejection returns an error.",
		NotDecided: []string{"state equality after a rejected message (SDK message router discards writes on error: trusted)", "signature verification of the signer field (SDK ante handler)"},
		Run:        runC14,
	})
}

func runC14(c *Ctx) {
	// ---- R1 ------------------------------------------------------------------------------------
	c.Rule("R1", "governance-only handlers (provider UpdateParams, ChangeRewardDenoms; consumer UpdateParams): every state change and every success return is reached only when GetAuthority() == msg.Authority", 6)
	for _, h := range []string{"pk.msgServer.UpdateParams", "pk.msgServer.ChangeRewardDenoms", "ck.msgServer.UpdateParams"} {
		f := c.Fn(h)
		if f == nil {
			continue
		}
		kp := "pk"
		if strings.HasPrefix(h, "ck.") {
			kp = "ck"
		}
		isAuth := AEq("GetAuthority() == msg.Authority", PCall(kp+".Keeper.GetAuthority", -1, nil), PField(PParam("msg"), "Authority"))
		n := 0
		for _, cl := range AllCalls(f, false) {
			if isStateEffect(cl) {
				n++
				c.GuardedBy(cl, fk(f, "authority-before", shortName(calleeName(cl))), isAuth)
			}
		}
		c.Check(n >= 1, fk(f, "has-effect"), f, "the handler has a guarded state change")
		for _, r := range successReturns(f) {
			c.GuardedBy(r, fk(f, "accept-only-authority"), isAuth)
		}
	}

	// ---- R2 ------------------------------------------------------------------------------------
	c.Rule("R2", "owner-only handlers: in UpdateConsumer and RemoveConsumer every state change and success return is reached only when msg.Owner == GetConsumerOwnerAddress(msg.ConsumerId); the owner record is written only by CreateConsumer (msg.Submitter) and UpdateConsumer (msg.NewOwnerAddress)", 25)
	for _, h := range []string{"pk.msgServer.UpdateConsumer", "pk.msgServer.RemoveConsumer"} {
		f := c.Fn(h)
		if f == nil {
			continue
		}
		id := PField(PParam("msg"), "ConsumerId")
		isOwner := AEq("msg.Owner == stored owner", PField(PParam("msg"), "Owner"), PCall("pk.Keeper.GetConsumerOwnerAddress", 0, nil, nil, id))
		ownerOK := AErrNil("owner record found", PCall("pk.Keeper.GetConsumerOwnerAddress", 1, nil, nil, id))
		n := 0
		for _, cl := range AllCalls(f, false) {
			if isStateEffect(cl) || isCallTo(cl, "pk.Keeper.InitializeConsumer", "pk.Keeper.PrepareConsumerForLaunch") {
				n++
				c.GuardedBy(cl, fk(f, "owner-before", shortName(calleeName(cl))), isOwner, ownerOK)
			}
		}
		c.Check(n >= 1, fk(f, "has-effects"), f, fmt.Sprintf("%d guarded state changes", n))
		for _, r := range successReturns(f) {
			ok, _ := Guarded(r, isOwner.Fn)
			// RemoveConsumer returns the stop's error value: its early returns are all errors
			c.Check(ok, fk(f, "accept-only-owner"), r, "a success return is reached only for the stored owner")
		}
	}
	c.OnlyCalledFrom("pk.Keeper.SetConsumerOwnerAddress", "pk.msgServer.CreateConsumer", "pk.msgServer.UpdateConsumer")
	if f := c.Fn("pk.msgServer.CreateConsumer"); f != nil {
		if s := c.one(f, false, "pk.Keeper.SetConsumerOwnerAddress"); s != nil {
			c.Check(PCall("pk.Keeper.FetchAndIncrementConsumerId", -1, nil)(arg(s, 1)) && PField(PParam("msg"), "Submitter")(arg(s, 2)), fk(f, "owner-is-submitter"), s, "the creator of a fresh consumer becomes its owner")
		}
	}
	if f := c.Fn("pk.msgServer.UpdateConsumer"); f != nil {
		if s := c.one(f, false, "pk.Keeper.SetConsumerOwnerAddress"); s != nil {
			c.Check(PField(PParam("msg"), "ConsumerId")(arg(s, 1)) && PField(PParam("msg"), "NewOwnerAddress")(arg(s, 2)), fk(f, "explicit-transfer"), s, "ownership changes to msg.NewOwnerAddress of the same consumer")
		}
	}

	// ---- R3 ------------------------------------------------------------------------------------
	c.Rule("R3", "Top-N only under governance ownership: CreateConsumer rejects Top_N != 0; UpdateConsumer writes power-shaping parameters only if not (Top_N > 0 and owner != authority) and accepts only if not (final Top_N != 0 and final owner != authority); SetConsumerPowerShapingParameters has no other run-time caller", 8)
	c.OnlyCalledFrom("pk.Keeper.SetConsumerPowerShapingParameters", "pk.msgServer.CreateConsumer", "pk.msgServer.UpdateConsumer")
	if f := c.Fn("pk.msgServer.CreateConsumer"); f != nil {
		hasPS := Atom{"msg.PowerShapingParameters != nil", cmpAtom(func(op token.Token, x, y ssa.Value) (bool, bool) {
			p := PField(PParam("msg"), "PowerShapingParameters")
			if (op == token.EQL || op == token.NEQ) && ((p(x) && isNilConst(y)) || (p(y) && isNilConst(x))) {
				return true, op == token.NEQ
			}
			return false, false
		})}
		topN := Atom{"Top_N != 0", cmpAtom(func(op token.Token, x, y ssa.Value) (bool, bool) {
			isT := func(v ssa.Value) bool { _, n, ok := fieldLoadOf(v); return ok && n == "Top_N" }
			if (op == token.EQL || op == token.NEQ) && ((isT(x) && PConstInt(0)(y)) || (isT(y) && PConstInt(0)(x))) {
				return true, op == token.NEQ
			}
			return false, false
		})}
		for _, r := range successReturns(f) {
			c.UnreachableWhen(r, fk(f, "no-topN-at-creation"), T(hasPS), T(topN))
		}
		if s := c.one(f, false, "pk.Keeper.SetConsumerPowerShapingParameters"); s != nil {
			c.UnreachableWhen(s, fk(f, "no-topN-write-at-creation"), T(hasPS), T(topN))
		}
	}
	if f := c.Fn("pk.msgServer.UpdateConsumer"); f != nil {
		id := PField(PParam("msg"), "ConsumerId")
		reqTopN := ACmp("requested Top_N > 0", token.GTR, PField(PField(PParam("msg"), "PowerShapingParameters"), "Top_N"), PConstInt(0))
		ownerIsGov := AEq("owner == authority", PCall("pk.Keeper.GetConsumerOwnerAddress", 0, nil, nil, id), PCall("pk.Keeper.GetAuthority", -1, nil))
		if s := c.one(f, false, "pk.Keeper.SetConsumerPowerShapingParameters"); s != nil {
			c.UnreachableWhen(s, fk(f, "topN-write-needs-gov-owner"), T(reqTopN), F(ownerIsGov))
			c.Check(id(arg(s, 1)) && PDeref(PField(PParam("msg"), "PowerShapingParameters"))(arg(s, 2)), fk(f, "writes-requested-parameters"), s, "writes msg.PowerShapingParameters for msg.ConsumerId")
		}
		// final re-read check
		gets := Calls(f, false, "pk.Keeper.GetConsumerOwnerAddress")
		getsP := Calls(f, false, "pk.Keeper.GetConsumerPowerShapingParameters")
		var lastOwner, lastParams ssa.CallInstruction
		for _, g := range gets {
			if lastOwner == nil || NewReach(f).After(lastOwner)[g] {
				lastOwner = g
			}
		}
		for _, g := range getsP {
			if lastParams == nil || NewReach(f).After(lastParams)[g] {
				lastParams = g
			}
		}
		if lastOwner != nil && lastParams != nil {
			finalTopN := Atom{"final Top_N != 0", cmpAtom(func(op token.Token, x, y ssa.Value) (bool, bool) {
				p := PField(PIs(extractOf(lastParams, 0)), "Top_N")
				if (op == token.EQL || op == token.NEQ) && ((p(x) && PConstInt(0)(y)) || (p(y) && PConstInt(0)(x))) {
					return true, op == token.NEQ
				}
				return false, false
			})}
			finalGov := AEq("final owner == authority", PIs(extractOf(lastOwner, 0)), PCall("pk.Keeper.GetAuthority", -1, nil))
			for _, r := range successReturns(f) {
				c.UnreachableWhen(r, fk(f, "final-topN-needs-gov-owner"), T(finalTopN), F(finalGov))
			}
			// the re-read happens after the last owner/parameter write
			for _, w := range Calls(f, false, "pk.Keeper.SetConsumerOwnerAddress", "pk.Keeper.SetConsumerPowerShapingParameters") {
				c.Check(!NewReach(f).After(lastOwner)[w] && !NewReach(f).After(lastParams)[w], fk(f, "final-check-after-writes", shortName(calleeName(w))), w, "the final owner/Top-N check reads the state after all owner and parameter writes")
			}
		}
	}

	// ---- R4 ------------------------------------------------------------------------------------
	c.Rule("R4", "Top_N range: ValidatePowerShapingParameters rejects Top_N outside {0} U [50,100]; ValidateBasic of MsgCreateConsumer and MsgUpdateConsumer call it on the message's parameters and propagate its error", 4)
	if f := c.Fn("pt.ValidatePowerShapingParameters"); f != nil {
		topN := PField(PParam("powerShapingParameters"), "Top_N")
		atoms := []Atom{
			AEq("Top_N==0", topN, PConstInt(0)),
			ACmp("Top_N<50", token.LSS, topN, PConstInt(50)),
			ACmp("Top_N>100", token.GTR, topN, PConstInt(100)),
		}
		for _, r := range successReturns(f) {
			c.UnreachableWhen(r, fk(f, "rejects-below-50"), F(atoms[0]), T(atoms[1]))
			c.UnreachableWhen(r, fk(f, "rejects-above-100"), F(atoms[0]), T(atoms[2]))
		}
	}
	for _, m := range []string{"pt.MsgCreateConsumer.ValidateBasic", "pt.MsgUpdateConsumer.ValidateBasic"} {
		f := c.Fn(m)
		if f == nil {
			continue
		}
		if v := c.one(f, false, "pt.ValidatePowerShapingParameters"); v != nil {
			c.Check(PDeref(PField(PParam("msg"), "PowerShapingParameters"))(arg(v, 0)), fk(f, "validates-own-parameters"), v, "validates msg.PowerShapingParameters")
			ok := AErrNil("ValidatePowerShapingParameters ok", PIs(v.Value()))
			for _, r := range successReturns(f) {
				c.NoPathAfterWhen(v, r, fk(f, "invalid-parameters-rejected"), F(ok))
			}
			hasPS := Atom{"msg.PowerShapingParameters != nil", cmpAtom(func(op token.Token, x, y ssa.Value) (bool, bool) {
				p := PField(PParam("msg"), "PowerShapingParameters")
				if (op == token.EQL || op == token.NEQ) && ((p(x) && isNilConst(y)) || (p(y) && isNilConst(x))) {
					return true, op == token.NEQ
				}
				return false, false
			})}
			for _, r := range successReturns(f) {
				c.MustPassWhen(r, []ssa.Instruction{v}, fk(f, "parameters-always-validated"), T(hasPS))
			}
		}
	}

	// ---- R5 ------------------------------------------------------------------------------------
	c.Rule("R5", "validator messages: ValidateBasic of AssignConsumerKey/OptIn/OptOut/SetConsumerCommissionRate requires validateProviderAddress(msg.ProviderAddr, msg.Signer); that function accepts only AccAddress(ValAddress(addr)) == signer; handlers act on the validator looked up from msg.ProviderAddr; tx.proto declares the signer fields", 18)
	if f := c.Fn("pt.validateProviderAddress"); f != nil {
		eq := AEq("AccAddress(valAddr).String() == signer", PCall("sdk.AccAddress.String", -1, nil), PParam("signer"))
		addrOK := AErrNil("ValAddressFromBech32 ok", PCall("sdk.ValAddressFromBech32", 1, nil, PParam("addr")))
		for _, r := range successReturns(f) {
			c.GuardedBy(r, fk(f, "accept-only-own-operator"), addrOK, eq)
		}
		// the compared account address derives from the operator address argument
		for _, g := range ifsTesting(f, eq.Fn) {
			b := normCond(g.If.Cond).V.(*ssa.BinOp)
			var acc ssa.Value = b.X
			if isParam(b.X, "signer") {
				acc = b.Y
			}
			cl, _ := callOf(acc)
			ok := cl != nil && PCall("sdk.ValAddress.Bytes", -1, PCall("sdk.ValAddressFromBech32", 0, nil, PParam("addr")))(callRecv(cl))
			c.Check(ok, fk(f, "account-of-operator"), g.If, "the compared account address is AccAddress(ValAddressFromBech32(addr).Bytes())")
		}
	}
	for _, m := range []string{"MsgAssignConsumerKey", "MsgOptIn", "MsgOptOut", "MsgSetConsumerCommissionRate"} {
		f := c.Fn("pt." + m + ".ValidateBasic")
		if f == nil {
			continue
		}
		if v := c.one(f, false, "pt.validateProviderAddress"); v != nil {
			c.Check(PField(PParam("msg"), "ProviderAddr")(arg(v, 0)) && PField(PParam("msg"), "Signer")(arg(v, 1)), fk(f, "checks-operator-is-signer"), v, "validateProviderAddress(msg.ProviderAddr, msg.Signer)")
			ok := AErrNil("validateProviderAddress ok", PIs(v.Value()))
			for _, r := range successReturns(f) {
				c.GuardedBy(r, fk(f, "valid-only-own-operator"), ok)
			}
		}
	}
	for _, h := range []struct{ fn, op string }{
		{"pk.msgServer.AssignConsumerKey", "pk.Keeper.AssignConsumerKey"},
		{"pk.msgServer.OptIn", "pk.Keeper.HandleOptIn"},
		{"pk.msgServer.OptOut", "pk.Keeper.HandleOptOut"},
		{"pk.msgServer.SetConsumerCommissionRate", "pk.Keeper.HandleSetConsumerCommissionRate"},
	} {
		f := c.Fn(h.fn)
		if f == nil {
			continue
		}
		op := c.one(f, false, h.op)
		if op == nil {
			continue
		}
		val := PCall("ccv.StakingKeeper.GetValidator", 0, nil, nil, PCall("sdk.ValAddressFromBech32", 0, nil, PField(PParam("msg"), "ProviderAddr")))
		who := arg(op, 2)
		okWho := val(who) || PCall("pt.NewProviderConsAddress", -1, nil, PCall("staking.Validator.GetConsAddr", 0, val))(who)
		c.Check(PField(PParam("msg"), "ConsumerId")(arg(op, 1)) && okWho, fk(f, "acts-on-own-validator"), op, "acts for msg.ConsumerId on the validator looked up from msg.ProviderAddr; found "+describe(who))
		for _, r := range successReturns(f) {
			c.GuardedBy(r, fk(f, "accept-only-if-handled"), AErrNil(shortName(q(h.op))+" ok", PIs(lastResult(op))))
		}
	}
	checkProtoSigners(c)

	// ---- R6 ------------------------------------------------------------------------------------
	c.Rule("R6", "rejections are errors: every return of a provider message handler that lies on a failed-guard edge carries a non-nil error (so the router rolls the message back); no errorsmod.Wrap/Wrapf anywhere in the modules wraps a possibly-nil error (Wrap(nil) is nil: the rejection would succeed after its effects)", 6)
	nWrap := 0
	for _, ws := range wrapSites(c.P, "pk", "pt", "ck", "ct", "provider", "consumer", "ccv") {
		nWrap++
		if !ws.OK {
			c.Check(false, fk(topFn(ws.Fn), "wrap-of-possibly-nil-error"), ws.Call, "errorsmod.Wrap/Wrapf of "+describe(callArgs(ws.Call)[0])+", which is not known to be non-nil here")
		}
	}
	c.Check(nWrap >= 200, "wrap-sites/census", nil, fmt.Sprintf("%d Wrap/Wrapf sites: each wraps a sentinel, a fresh error or an error tested non-nil on every path", nWrap))
	for _, h := range []string{"pk.msgServer.UpdateConsumer", "pk.msgServer.RemoveConsumer", "pk.msgServer.UpdateParams", "pk.msgServer.ChangeRewardDenoms", "ck.msgServer.UpdateParams"} {
		f := c.Fn(h)
		if f == nil {
			continue
		}
		var guard Atom
		kp := "pk"
		if strings.HasPrefix(h, "ck.") {
			kp = "ck"
		}
		if strings.Contains(h, "Consumer") {
			guard = AEq("msg.Owner == stored owner", PField(PParam("msg"), "Owner"), PCall("pk.Keeper.GetConsumerOwnerAddress", 0, nil, nil, PField(PParam("msg"), "ConsumerId")))
		} else {
			guard = AEq("GetAuthority() == msg.Authority", PCall(kp+".Keeper.GetAuthority", -1, nil), PField(PParam("msg"), "Authority"))
		}
		n := 0
		for _, g := range ifsTesting(f, guard.Fn) {
			fail := g.If.Block().Succs[1-g.HoldIdx]
			reach := NewReach(f).From(fail.Instrs[0])
			for _, r := range Returns(f) {
				if reach[r] && !NewReach(f).From(g.If.Block().Succs[g.HoldIdx].Instrs[0])[r] {
					n++
					c.Check(len(successReturnsOf(r)) == 0, fk(f, "unauthorised-is-error"), r, "the unauthorised branch returns an error")
				}
			}
		}
		c.Check(n >= 1, fk(f, "has-rejection"), f, "has a rejecting return")
	}
}

func lastResult(cl ssa.CallInstruction) ssa.Value {
	n := cl.Common().Signature().Results().Len()
	if n == 1 {
		return cl.Value()
	}
	return extractOf(cl, n-1)
}

// checkProtoSigners reads /repo/proto/.../provider/v1/tx.proto and checks the cosmos.msg.v1.signer option of each message.
func checkProtoSigners(c *Ctx) {
	path := filepath.Join(c.P.Dir, "proto/interchain_security/ccv/provider/v1/tx.proto")
	b, err := os.ReadFile(path)
	if err != nil {
		c.Undecided("tx.proto", nil, "cannot read "+path)
		return
	}
	want := map[string]string{
		"MsgAssignConsumerKey": "signer", "MsgOptIn": "signer", "MsgOptOut": "signer", "MsgSetConsumerCommissionRate": "signer",
		"MsgUpdateConsumer": "owner", "MsgRemoveConsumer": "owner", "MsgCreateConsumer": "submitter",
		"MsgUpdateParams": "authority", "MsgChangeRewardDenoms": "authority",
	}
	opt := regexp.MustCompile(`option\s*\(cosmos\.msg\.v1\.signer\)\s*=\s*"(\w+)"`)
	msgRe := regexp.MustCompile(`^message\s+(\w+)\s*\{`)
	got := map[string]string{}
	cur := ""
	for _, line := range strings.Split(string(b), "\n") {
		if m := msgRe.FindStringSubmatch(line); m != nil {
			cur = m[1]
			if strings.Contains(line, "{}") {
				cur = ""
			}
			continue
		}
		if strings.HasPrefix(line, "}") {
			cur = ""
			continue
		}
		if o := opt.FindStringSubmatch(line); o != nil && cur != "" {
			got[cur] = o[1]
		}
	}
	for msg, field := range want {
		c.Check(got[msg] == field, "tx.proto/"+msg+"/signer", "proto/interchain_security/ccv/provider/v1/tx.proto", fmt.Sprintf("cosmos.msg.v1.signer of %s = %q (found %q)", msg, field, got[msg]))
	}
}
