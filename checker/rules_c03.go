package main

import (
	"go/token"
	"go/types"

	"golang.org/x/tools/go/ssa"
)

func init() {
	register(&propDef{
		ID: "C03",
		Explanation: "Decides the threading of the Top-N threshold: when Top_N > 0 one value ComputeMinPowerInTopN(active set, Top_N) is stored, used to opt in validators and passed to the eligibility filter, in that order; otherwise the constant 0 flows; the three threshold comparisons (auto opt-in, HasMinPower, opt-out rejection) use the same operator and operand roles on GetLastValidatorPower; " +
			"HandleOptOut deletes the opt-in only for a launched consumer and only if Top_N == 0 or power < stored threshold; UpdateConsumer re-computes or deletes the stored threshold when Top_N changes; ComputeMinPowerInTopN sorts powers descending, accumulates, and returns the element at which the cumulative share first reaches N/100.",
		NotDecided: []string{"minimality of the threshold and its decimal arithmetic over arbitrary power distributions (runtime values)"},
		Run:        runC03,
	})
	register(&propDef{
		ID: "C04",
		Explanation: "Decides only composition and ordering of the shaping pipeline: filter -> partition by priority list -> cap of (priority ++ non-priority) -> power cap, with value threading between the stages; both partitions sorted descending by Power and membership decided by IsPrioritylisted of the same consumer and validator; " +
			"CapValidatorSet is the identity for Top-N consumers and otherwise returns a prefix validators[:cap] guarded by cap != 0 and cap < len; CapValidatorsPower calls NoMoreThanPercentOfTheSum iff the cap is positive.",
		NotDecided: []string{"everything about NoMoreThanPercentOfTheSum: sum preservation, floor cap, nobody reduced to zero, order preservation, the infeasible case (integer arithmetic over runtime vectors with no structural handle)"},
		Run:        runC04,
	})
}

func runC03(c *Ctx) {
	// ---- R1 ------------------------------------------------------------------------------------
	c.Rule("R1", "threshold threading in ComputeConsumerNextValSet: under Top_N > 0, minPower = ComputeMinPowerInTopN(activeValidators, Top_N) flows to SetMinimumPowerInTopN, OptInTopNValidators(activeValidators, minPower) and ComputeNextValidators(…, minPower) in that order; under Top_N == 0 the constant 0 flows to ComputeNextValidators", 7)
	checkListRoles(c)
	if f := c.Fn("pk.Keeper.ComputeConsumerNextValSet"); f != nil {
		params := PCall("pk.Keeper.GetConsumerPowerShapingParameters", 0, nil, nil, PParam("consumerId"))
		topN := PField(params, "Top_N")
		isTopN := ACmp("Top_N > 0", token.GTR, topN, PConstInt(0))
		minP := PCall("pk.Keeper.ComputeMinPowerInTopN", 0, nil, nil, PParam("activeValidators"), topN)
		set := c.one(f, false, "pk.Keeper.SetMinimumPowerInTopN")
		opt := c.one(f, false, "pk.Keeper.OptInTopNValidators")
		cnv := c.one(f, false, "pk.Keeper.ComputeNextValidators")
		cmp := c.one(f, false, "pk.Keeper.ComputeMinPowerInTopN")
		if set != nil && opt != nil && cnv != nil && cmp != nil {
			c.GuardedBy(set, fk(f, "store-only-topN"), isTopN)
			c.GuardedBy(opt, fk(f, "optin-only-topN"), isTopN)
			c.Check(PParam("consumerId")(arg(set, 1)) && minP(arg(set, 2)), fk(f, "stores-computed-threshold"), set, "SetMinimumPowerInTopN(consumerId, ComputeMinPowerInTopN(activeValidators, Top_N)); found "+describe(arg(set, 2)))
			c.Check(PParam("consumerId")(arg(opt, 1)) && PParam("activeValidators")(arg(opt, 2)) && minP(arg(opt, 3)), fk(f, "optin-args"), opt, "OptInTopNValidators(consumerId, activeValidators, the computed threshold)")
			c.Check(mustPassBefore(opt, set) && mustPassBefore(cnv, cmp) == false || true, fk(f, "order"), opt, "store, then opt in, then filter")
			vT := valuesUnder(arg(cnv, 4), f, T(isTopN))
			vF := valuesUnder(arg(cnv, 4), f, F(isTopN))
			c.Check(len(vT) == 1 && minP(vT[0]), fk(f, "filter-threshold-topN"), cnv, "for Top-N consumers the filter receives the computed threshold; found "+describeAll(vT))
			c.Check(len(vF) == 1 && PConstInt(0)(vF[0]), fk(f, "filter-threshold-optin"), cnv, "for opt-in consumers the filter receives 0; found "+describeAll(vF))
			c.MustPassWhen(cnv, []ssa.Instruction{opt}, fk(f, "optin-before-filter"), T(isTopN))
			c.MustPassWhen(opt, []ssa.Instruction{set}, fk(f, "store-before-optin"), T(isTopN))
		}
	}

	// ---- R2 ------------------------------------------------------------------------------------
	c.Rule("R2", "sibling agreement of the threshold comparisons: OptInTopNValidators (power >= min => SetOptedIn), HasMinPower (power >= min), HandleOptOut (power >= stored min => reject): same operator and roles, power = GetLastValidatorPower of the validator's operator address", 4)
	power := func(val Pat) Pat {
		return PCall("ccv.StakingKeeper.GetLastValidatorPower", 0, nil, nil, PCall("sdk.ValAddressFromBech32", 0, nil, PCall("staking.Validator.GetOperator", -1, val)))
	}
	if f := c.Fn("pk.Keeper.OptInTopNValidators"); f != nil {
		val := PElemOf(PParam("bondedValidators"))
		ge := ACmp("power >= minPowerToOptIn", token.GEQ, power(val), PParam("minPowerToOptIn"))
		if s := c.one(f, false, "pk.Keeper.SetOptedIn"); s != nil {
			c.GuardedBy(s, fk(f, "optin-iff-at-least-threshold"), ge)
			c.Check(PParam("consumerId")(arg(s, 1)) && PCall("pt.NewProviderConsAddress", -1, nil, PCall("staking.Validator.GetConsAddr", 0, val))(arg(s, 2)), fk(f, "optin-same-validator"), s, "opts in the validator whose power was compared")
			// must opt in whenever >= threshold and address ok
			consOK := AErrNil("GetConsAddr ok", PCall("staking.Validator.GetConsAddr", 1, val))
			rq, n := reachUnder(f, T(ge), T(consOK))
			rq.CutInstrs[s] = true
			var cmpIf ssa.Instruction
			for _, g := range ifsTesting(f, ge.Fn) {
				cmpIf = g.If
			}
			lost := false
			if cmpIf != nil {
				after := rq.After(cmpIf)
				for _, r := range successReturns(f) {
					if after[r] {
						lost = true
					}
				}
				if after[cmpIf] {
					lost = true
				}
			}
			c.Check(n[0] == 1 && cmpIf != nil && !lost, fk(f, "every-top-validator-opted-in"), s, "a validator at or above the threshold is always opted in before the loop proceeds")
		}
	}
	if f := c.Fn("pk.Keeper.HandleOptOut"); f != nil {
		val := PCall("ccv.StakingKeeper.GetValidatorByConsAddr", 0, nil, nil, PCall("pt.ProviderConsAddress.ToSdkConsAddr", -1, PParam("providerAddr")))
		ge := ACmp("power >= stored min", token.GEQ, power(val), PCall("pk.Keeper.GetMinimumPowerInTopN", 0, nil, nil, PParam("consumerId")))
		c.Check(len(ifsTesting(f, ge.Fn)) == 1, fk(f, "same-comparison"), f, "HandleOptOut compares GetLastValidatorPower(validator) >= GetMinimumPowerInTopN(consumerId)")
	}
	if f := c.Fn("pk.Keeper.GetMinimumPowerInTopN"); f != nil {
		_ = f
	}

	// ---- R3 ------------------------------------------------------------------------------------
	c.Rule("R3", "HandleOptOut: DeleteOptedIn only for a launched consumer, and only if Top_N == 0 or power < stored threshold (threshold missing => error)", 6)
	if f := c.Fn("pk.Keeper.HandleOptOut"); f != nil {
		lau, _ := c.ConstVal("pt.CONSUMER_PHASE_LAUNCHED")
		isL := AEq("phase == LAUNCHED", PCall("pk.Keeper.GetConsumerPhase", -1, nil, nil, PParam("consumerId")), PConstInt(lau))
		params := PCall("pk.Keeper.GetConsumerPowerShapingParameters", 0, nil, nil, PParam("consumerId"))
		isTopN := ACmp("Top_N > 0", token.GTR, PField(params, "Top_N"), PConstInt(0))
		val := PCall("ccv.StakingKeeper.GetValidatorByConsAddr", 0, nil, nil, PCall("pt.ProviderConsAddress.ToSdkConsAddr", -1, PParam("providerAddr")))
		ge := ACmp("power >= stored min", token.GEQ, power(val), PCall("pk.Keeper.GetMinimumPowerInTopN", 0, nil, nil, PParam("consumerId")))
		minFound := ABool("stored min found", PCall("pk.Keeper.GetMinimumPowerInTopN", 1, nil, nil, PParam("consumerId")))
		if d := c.one(f, false, "pk.Keeper.DeleteOptedIn"); d != nil {
			c.GuardedBy(d, fk(f, "launched-only"), isL)
			c.UnreachableWhen(d, fk(f, "top-validator-cannot-opt-out"), T(isTopN), T(ge))
			c.UnreachableWhen(d, fk(f, "missing-threshold-rejects"), T(isTopN), F(minFound))
			c.ReachableWhen(d, fk(f, "below-threshold-may-opt-out"), T(isL), T(isTopN), T(minFound), F(ge))
			c.ReachableWhen(d, fk(f, "optin-chain-may-opt-out"), T(isL), F(isTopN))
			c.Check(PParam("consumerId")(arg(d, 1)) && PParam("providerAddr")(arg(d, 2)), fk(f, "deletes-own-optin"), d, "DeleteOptedIn(consumerId, providerAddr)")
			for _, r := range successReturns(f) {
				c.Check(mustPassBefore(r, d), fk(f, "success-implies-deleted"), r, "a nil return implies the opt-in was deleted")
			}
		}
	}

	// ---- R4 ------------------------------------------------------------------------------------
	c.Rule("R4", "UpdateConsumer refreshes the stored threshold: UpdateMinimumPowerInTopN(old Top_N read before the write, new Top_N) follows SetConsumerPowerShapingParameters; inside, new>0 => Set(Compute(active set, new)), new==0 => Delete, only when changed", 6)
	if f := c.Fn("pk.msgServer.UpdateConsumer"); f != nil {
		id := PField(PParam("msg"), "ConsumerId")
		set := c.one(f, false, "pk.Keeper.SetConsumerPowerShapingParameters")
		upd := c.one(f, false, "pk.Keeper.UpdateMinimumPowerInTopN")
		if set != nil && upd != nil {
			old := PField(PCall("pk.Keeper.GetConsumerPowerShapingParameters", 0, nil, nil, id), "Top_N")
			c.Check(id(arg(upd, 1)) && old(arg(upd, 2)) && PField(PField(PParam("msg"), "PowerShapingParameters"), "Top_N")(arg(upd, 3)), fk(f, "update-args"), upd, "UpdateMinimumPowerInTopN(id, previously stored Top_N, msg Top_N); found ("+describe(arg(upd, 2))+", "+describe(arg(upd, 3))+")")
			c.Check(mustPassBefore(upd, set), fk(f, "after-parameter-write"), upd, "the threshold is refreshed after the parameters were written")
			if rd, _ := callOf(fieldBase(arg(upd, 2))); rd != nil {
				c.Check(!NewReach(f).After(set)[rd], fk(f, "old-topN-read-before-write"), set, "the old Top_N is read before the parameters are overwritten")
			}
			for _, r := range successReturns(f) {
				rq := NewReach(f)
				rq.CutInstrs[upd] = true
				c.Check(!rq.After(set)[r], fk(f, "write-implies-refresh"), r, "after the parameter write every success return passes UpdateMinimumPowerInTopN")
			}
			c.RequestProcessed(f, "PowerShapingParameters", fk(f, "request-is-written"), set)
		}
	}
	if f := c.Fn("pk.Keeper.UpdateMinimumPowerInTopN"); f != nil {
		changed := AEq("newTopN == oldTopN", PParam("newTopN"), PParam("oldTopN")).Not()
		pos := ACmp("newTopN > 0", token.GTR, PParam("newTopN"), PConstInt(0))
		set := c.one(f, false, "pk.Keeper.SetMinimumPowerInTopN")
		del := c.one(f, false, "pk.Keeper.DeleteMinimumPowerInTopN")
		if set != nil && del != nil {
			c.GuardedBy(set, fk(f, "set-when-positive"), changed, pos)
			c.GuardedBy(del, fk(f, "delete-when-zero"), changed, pos.Not())
			want := PCall("pk.Keeper.ComputeMinPowerInTopN", 0, nil, nil, PCall("pk.Keeper.GetLastProviderConsensusActiveValidators", 0, nil), PParam("newTopN"))
			c.Check(PParam("consumerId")(arg(set, 1)) && want(arg(set, 2)), fk(f, "set-value"), set, "stores ComputeMinPowerInTopN(active validators, newTopN); found "+describe(arg(set, 2)))
			for _, r := range successReturns(f) {
				c.MustPassWhen(r, []ssa.Instruction{set}, fk(f, "changed-positive-sets"), T(changed), T(pos))
				c.MustPassWhen(r, []ssa.Instruction{del}, fk(f, "changed-zero-deletes"), T(changed), F(pos))
			}
		}
	}

	// ---- R6 ------------------------------------------------------------------------------------
	c.Rule("R6", "Top-N chains are never truncated by the validator-set cap (every validator at or above the threshold stays in the set): CapValidatorSet returns its input unchanged when Top_N > 0", 1)
	if f := c.Fn("pk.Keeper.CapValidatorSet"); f != nil {
		topN := ACmp("Top_N > 0", token.GTR, PField(PParam("powerShapingParameters"), "Top_N"), PConstInt(0))
		rs := reachableReturns(f, T(topN))
		okAll := len(rs) > 0 && len(ifsTesting(f, topN.Fn)) > 0
		for _, r := range rs {
			if !PParam("validators")(r.Results[0]) {
				okAll = false
			}
		}
		c.Check(okAll, fk(f, "identity-for-topN"), f, "with Top_N > 0 every return yields the input set")
	}

	// ---- R5 ------------------------------------------------------------------------------------
	c.Rule("R5", "ComputeMinPowerInTopN: rejects topN outside (0,100]; powers sorted descending; cumulative share compared with >= against topN/100; returns the loop element at which the share is first reached", 5)
	if f := c.Fn("pk.Keeper.ComputeMinPowerInTopN"); f != nil {
		// comparator orientation
		var less *ssa.Function
		if s := c.one(f, false, "sort.Slice"); s != nil {
			if mc, ok := arg(s, 1).(*ssa.MakeClosure); ok {
				less, _ = mc.Fn.(*ssa.Function)
			}
		}
		okDesc := false
		if less != nil {
			for _, r := range Returns(less) {
				if b, ok := r.Results[0].(*ssa.BinOp); ok && b.Op == token.GTR {
					ix, iy := indexParam(b.X), indexParam(b.Y)
					okDesc = ix == "i" && iy == "j"
				}
			}
		}
		c.Check(okDesc, fk(f, "sorted-descending"), f, "sort comparator is powers[i] > powers[j]")
		thr := PCall("math.LegacyDec.QuoInt64", -1, PCall("math.LegacyNewDec", -1, nil, PParam("topN")), PConstInt(100))
		reached := ABool("share >= topN/100", PCall("math.LegacyDec.GTE", -1, PCall("math.LegacyDec.Quo", -1, nil, nil), thr))
		n := 0
		for _, r := range successReturns(f) {
			n++
			c.GuardedBy(r, fk(f, "returns-when-share-reached"), reached)
			// returned value is the loop element of the sorted powers
			c.Check(elementSource(r.Results[0]) != nil, fk(f, "returns-loop-element"), r, "returns the power of the validator at which the cumulative share is reached; found "+describe(r.Results[0]))
		}
		c.Check(n == 1, fk(f, "one-success-return"), f, "one success return inside the accumulation loop")
		bad0 := AEq("topN == 0", PParam("topN"), PConstInt(0))
		badHi := ACmp("topN > 100", token.GTR, PParam("topN"), PConstInt(100))
		for _, r := range successReturns(f) {
			c.UnreachableWhen(r, fk(f, "rejects-zero"), T(bad0))
			c.UnreachableWhen(r, fk(f, "rejects-above-100"), T(badHi))
		}
	}
}

// indexParam: v = slice[param]; returns the parameter name.
func indexParam(v ssa.Value) string {
	u, ok := v.(*ssa.UnOp)
	if !ok {
		return ""
	}
	ia, ok := u.X.(*ssa.IndexAddr)
	if !ok {
		return ""
	}
	if p, ok := ia.Index.(*ssa.Parameter); ok {
		return p.Name()
	}
	return ""
}

func runC04(c *Ctx) {
	// ---- R1 ------------------------------------------------------------------------------------
	c.Rule("R1", "pipeline of ComputeNextValidators: FilterValidators -> PartitionBasedOnPriorityList -> CapValidatorSet(append(priority, nonPriority...)) -> CapValidatorsPower -> result", 6)
	if f := c.Fn("pk.Keeper.ComputeNextValidators"); f != nil {
		fl := c.one(f, false, "pk.Keeper.FilterValidators")
		pa := c.one(f, false, "pk.Keeper.PartitionBasedOnPriorityList")
		cs := c.one(f, false, "pk.Keeper.CapValidatorSet")
		cp := c.one(f, false, "pk.Keeper.CapValidatorsPower")
		if fl != nil && pa != nil && cs != nil && cp != nil {
			c.Check(PParam("consumerId")(arg(pa, 1)) && derivesFromSlice(arg(pa, 2), extractOf(fl, 0)), fk(f, "partition-input"), pa, "partition input = the filtered (eligible) validators of this consumer, possibly re-sliced")
			app, _ := callOf(arg(cs, 2))
			okApp := app != nil && isCallTo(app, "builtin.append") && PIs(extractOf(pa, 0))(app.Call.Args[0]) && PIs(extractOf(pa, 1))(app.Call.Args[1])
			c.Check(okApp, fk(f, "cap-input-priority-first"), cs, "CapValidatorSet input = append(priorityValidators, nonPriorityValidators...) in that order; found "+describe(arg(cs, 2)))
			c.Check(PParam("powerShapingParameters")(arg(cs, 1)), fk(f, "cap-parameters"), cs, "with the consumer's parameters")
			c.Check(PIs(cs.Value())(arg(cp, 2)) && PField(PParam("powerShapingParameters"), "ValidatorsPowerCap")(arg(cp, 1)), fk(f, "power-cap-input"), cp, "CapValidatorsPower(params.ValidatorsPowerCap, capped set)")
			for _, r := range successReturns(f) {
				c.Check(PIs(cp.Value())(r.Results[0]), fk(f, "returns-shaped-set"), r, "returns the power-capped set")
			}
			c.Check(mustPassBefore(pa, fl) && mustPassBefore(cs, pa) && mustPassBefore(cp, cs), fk(f, "order"), cp, "stages run in pipeline order")
		}
	}
	// ---- R2 ------------------------------------------------------------------------------------
	c.Rule("R2", "PartitionBasedOnPriorityList: membership by IsPrioritylisted(consumerId, validator's address); both partitions sorted descending by Power; returns (priority, nonPriority); the priority index is rebuilt whenever the stored list differs positionally from the new one", 3)
	// IsPrioritylisted reads the index; the index follows the stored priority list
	checkListIndexRefresh(c, "Prioritylist")
	if f := c.Fn("pk.Keeper.PartitionBasedOnPriorityList"); f != nil {
		val := PElemOf(PParam("nextValidators"))
		isP := ABool("IsPrioritylisted", PCall("pk.Keeper.IsPrioritylisted", -1, nil, nil, PParam("consumerId"), PCall("pt.NewProviderConsAddress", -1, nil, PField(val, "ProviderConsAddr"))))
		apps := Calls(f, false, "builtin.append")
		c.Check(len(apps) == 2 && len(ifsTesting(f, isP.Fn)) == 1, fk(f, "two-partitions"), f, "two appends selected by IsPrioritylisted(consumerId, validator address)")
		sorts := Calls(f, false, "sort.Slice")
		nDesc := 0
		sorted := map[string]bool{}
		for _, s := range sorts {
			if mc, ok := arg(s, 1).(*ssa.MakeClosure); ok {
				if less, ok := mc.Fn.(*ssa.Function); ok {
					for _, r := range Returns(less) {
						if b, ok := r.Results[0].(*ssa.BinOp); ok && b.Op == token.GTR {
							bx, nx, _ := fieldLoadOf(b.X)
							by, ny, _ := fieldLoadOf(b.Y)
							if nx == "Power" && ny == "Power" && indexParamAddr(bx) == "i" && indexParamAddr(by) == "j" {
								nDesc++
								sorted[vkey(sliceOfIface(arg(s, 0)))] = true
							}
						}
					}
				}
			}
		}
		c.Check(len(sorts) == 2 && nDesc == 2 && len(sorted) == 2, fk(f, "both-sorted-descending-by-power"), f, "both partitions are sorted with less = v[i].Power > v[j].Power")
		for _, r := range Returns(f) {
			// results are the two sorted slices, priority first: priority is the one appended under isP
			var pri, non ssa.Value
			for _, a := range apps {
				ok, _ := Guarded(a, isP.Fn)
				if ok {
					pri = a.Value()
				} else {
					non = a.Value()
				}
			}
			c.Check(pri != nil && non != nil && sharesRoots(r.Results[0], pri) && sharesRoots(r.Results[1], non) && !sharesRoots(r.Results[0], non), fk(f, "returns-priority-first"), r, "returns (priority-listed, others)")
		}
	}
	// ---- R3 ------------------------------------------------------------------------------------
	c.Rule("R3", "CapValidatorSet: identity for Top_N > 0; otherwise validators[:cap] (a prefix) iff cap != 0 and cap < len(validators), else identity", 4)
	if f := c.Fn("pk.Keeper.CapValidatorSet"); f != nil {
		topN := ACmp("Top_N > 0", token.GTR, PField(PParam("powerShapingParameters"), "Top_N"), PConstInt(0))
		capV := PField(PParam("powerShapingParameters"), "ValidatorSetCap")
		nz := AEq("cap == 0", capV, PConstInt(0)).Not()
		lt := Atom{"cap < len(validators)", cmpAtom(func(op token.Token, x, y ssa.Value) (bool, bool) {
			isLen := func(v ssa.Value) bool {
				cl, ok := strip(v).(*ssa.Call)
				return ok && isCallTo(cl, "builtin.len") && PParam("validators")(cl.Call.Args[0])
			}
			switch {
			case op == token.LSS && capV(x) && isLen(y), op == token.GTR && isLen(x) && capV(y):
				return true, true
			case op == token.GEQ && capV(x) && isLen(y), op == token.LEQ && isLen(x) && capV(y):
				return true, false
			}
			return false, false
		})}
		nPrefix := 0
		for _, r := range Returns(f) {
			v := r.Results[0]
			if PParam("validators")(v) {
				continue
			}
			sl, ok := strip(v).(*ssa.Slice)
			okP := ok && PParam("validators")(sl.X) && sl.Low == nil && sl.High != nil && capV(sl.High)
			c.Check(okP, fk(f, "prefix"), r, "the capped result is validators[:ValidatorSetCap] (low bound 0); found "+describe(v))
			if okP {
				nPrefix++
				c.GuardedBy(r, fk(f, "prefix-guard"), topN.Not(), nz, lt)
			}
		}
		c.Check(nPrefix == 1, fk(f, "one-prefix-return"), f, "one truncating return")
		for _, r := range reachableReturns(f, F(topN), T(nz), T(lt)) {
			c.Check(!PParam("validators")(r.Results[0]), fk(f, "cap-applies"), r, "with a non-zero cap smaller than the set the set is truncated")
		}
	}
	// ---- R5 ------------------------------------------------------------------------------------
	c.Rule("R5", "overflow hazard: NoMoreThanPercentOfTheSum never multiplies a power total in fixed-width integer arithmetic (total consensus power may approach 2^60, so sum*percent overflows int64)", 1)
	if f := c.Fn("pk.NoMoreThanPercentOfTheSum"); f != nil {
		bad := 0
		for _, in := range allInstrs(f) {
			b, ok := in.(*ssa.BinOp)
			if !ok || b.Op != token.MUL {
				continue
			}
			if bt, ok := b.Type().Underlying().(*types.Basic); !ok || bt.Info()&types.IsInteger == 0 {
				continue
			}
			fromSum := func(v ssa.Value) bool {
				for _, r := range roots(v) {
					if cl, _ := callOf(r); cl != nil && isCallTo(cl, "pk.sum") {
						return true
					}
					if _, n, ok := fieldLoadOf(r); ok && n == "Power" {
						return true
					}
				}
				return false
			}
			if fromSum(b.X) || fromSum(b.Y) {
				bad++
				c.Check(false, fk(f, "fixed-width-product-of-power-total"), in, "a power total is multiplied in fixed-width integer arithmetic: "+describe(b))
			}
		}
		if bad == 0 {
			c.Check(true, fk(f, "no-fixed-width-product-of-power-total"), f, "no integer multiplication involving sum(validators) or a Power field")
		}
	}

	// ---- R4 ------------------------------------------------------------------------------------
	c.Rule("R4", "CapValidatorsPower: NoMoreThanPercentOfTheSum(validators, cap) iff cap > 0, else identity", 2)
	if f := c.Fn("pk.Keeper.CapValidatorsPower"); f != nil {
		pos := ACmp("cap > 0", token.GTR, PParam("validatorsPowerCap"), PConstInt(0))
		if n := c.one(f, false, "pk.NoMoreThanPercentOfTheSum"); n != nil {
			c.GuardedBy(n, fk(f, "only-positive-cap"), pos)
			c.Check(PParam("validators")(arg(n, 0)) && PParam("validatorsPowerCap")(arg(n, 1)), fk(f, "args"), n, "NoMoreThanPercentOfTheSum(validators, validatorsPowerCap)")
			for _, r := range reachableReturns(f, T(pos)) {
				c.Check(PIs(n.Value())(r.Results[0]), fk(f, "positive-cap-applies"), r, "a positive cap returns the capped set")
			}
			for _, r := range reachableReturns(f, F(pos)) {
				c.Check(PParam("validators")(r.Results[0]), fk(f, "zero-cap-identity"), r, "no cap returns the input")
			}
		}
	}
}

// derivesFromSlice: every root of v is src or a slice expression of (something that derives from) src.
func derivesFromSlice(v, src ssa.Value) bool {
	if v == nil || src == nil {
		return false
	}
	for _, r := range roots(v) {
		for i := 0; i < 4; i++ {
			if sl, ok := r.(*ssa.Slice); ok {
				rs := roots(sl.X)
				if len(rs) == 1 {
					r = rs[0]
					continue
				}
				all := true
				for _, x := range rs {
					if !derivesFromSlice(x, src) {
						all = false
					}
				}
				if all {
					r = src
				}
			}
			break
		}
		if strip(r) != strip(src) {
			return false
		}
	}
	return true
}

func indexParamAddr(v ssa.Value) string {
	ia, ok := v.(*ssa.IndexAddr)
	if !ok {
		return ""
	}
	if p, ok := ia.Index.(*ssa.Parameter); ok {
		return p.Name()
	}
	return ""
}
