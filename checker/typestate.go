package main

// Phase typestate (A6): which lifecycle phases may a consumer be in when a given instruction is
// reached, decided from the guards on GetConsumerPhase / IsConsumerActive / IsConsumerPrelaunched
// that control the instruction, lifted through callers when the id is a parameter, and closed by
// three axioms on id sources (fresh id, spawn-queue member, channel-bound consumer).

import (
	"fmt"
	"go/token"
	"sort"
	"strings"

	"golang.org/x/tools/go/ssa"
)

type phaseSet map[int64]bool

func (s phaseSet) String() string {
	names := map[int64]string{0: "NONE", 1: "REGISTERED", 2: "INITIALIZED", 3: "LAUNCHED", 4: "STOPPED", 5: "DELETED"}
	var out []string
	for p := int64(0); p <= 5; p++ {
		if s[p] {
			out = append(out, names[p])
		}
	}
	return "{" + strings.Join(out, ",") + "}"
}

func allPhases() phaseSet {
	return phaseSet{0: true, 1: true, 2: true, 3: true, 4: true, 5: true}
}

type typestate struct {
	c            *Ctx
	phaseWriters map[string]bool // functions that may (transitively) write a consumer phase
	helperTable  map[string]map[int64]int
	notes        []string
}

func newTypestate(c *Ctx) *typestate {
	ts := &typestate{c: c, helperTable: map[string]map[int64]int{}}
	ts.phaseWriters = c.P.transitiveCallers(q("pk.Keeper.SetConsumerPhase"))
	return ts
}

// transitiveCallers: the set of module functions from which target is reachable through static
// calls and function-value references (names), including target itself.
func (p *Prog) transitiveCallers(target string) map[string]bool {
	ci := p.index()
	// reverse edges: callee -> callers
	rev := map[string]map[string]bool{}
	add := func(callee string, in ssa.Instruction) {
		caller := ssaFuncName(topFn(in.Parent()))
		if rev[callee] == nil {
			rev[callee] = map[string]bool{}
		}
		rev[callee][caller] = true
	}
	for callee, sites := range ci.calls {
		for _, s := range sites {
			add(callee, s)
		}
	}
	for callee, sites := range ci.refs {
		for _, s := range sites {
			add(callee, s)
		}
	}
	out := map[string]bool{target: true}
	work := []string{target}
	for len(work) > 0 {
		n := work[len(work)-1]
		work = work[:len(work)-1]
		for c := range rev[n] {
			if !out[c] {
				out[c] = true
				work = append(work, c)
			}
		}
	}
	return out
}

// condUnder evaluates a branch condition under the assumption phase(id) == p.
// returns +1 (true), -1 (false), 0 (not determined by the phase of id).
func (ts *typestate) condUnder(cond ssa.Value, id ssa.Value, p int64, depth int) int {
	l := normCond(cond)
	v := ts.leafUnder(l.V, id, p, depth)
	if l.Neg {
		return -v
	}
	return v
}

func (ts *typestate) isPhaseOf(v ssa.Value, id ssa.Value) bool {
	for _, r := range roots(v) {
		c, _ := callOf(r)
		if c == nil || !isCallTo(c, "pk.Keeper.GetConsumerPhase") || !sameVal(arg(c, 1), id) {
			return false
		}
	}
	return len(roots(v)) > 0
}

func (ts *typestate) leafUnder(leaf ssa.Value, id ssa.Value, p int64, depth int) int {
	switch x := leaf.(type) {
	case *ssa.BinOp:
		if x.Op != token.EQL && x.Op != token.NEQ {
			return 0
		}
		var k int64
		var ok bool
		if ts.isPhaseOf(x.X, id) {
			k, ok = constInt(x.Y)
		} else if ts.isPhaseOf(x.Y, id) {
			k, ok = constInt(x.X)
		}
		if !ok {
			return 0
		}
		eq := k == p
		if (x.Op == token.EQL) == eq {
			return 1
		}
		return -1
	case *ssa.Call:
		if isCallTo(x, "pk.Keeper.IsConsumerActive", "pk.Keeper.IsConsumerPrelaunched") && sameVal(arg(x, 1), id) {
			return ts.helper(x.Call.StaticCallee(), p, depth)
		}
	}
	return 0
}

// helper evaluates a bool helper H(ctx, consumerId) under phase(consumerId) == p by interpreting
// its (loop-free) body.
func (ts *typestate) helper(fn *ssa.Function, p int64, depth int) int {
	if fn == nil || depth > 3 {
		return 0
	}
	name := ssaFuncName(fn)
	if t, ok := ts.helperTable[name]; ok {
		if v, ok := t[p]; ok {
			return v
		}
	} else {
		ts.helperTable[name] = map[int64]int{}
	}
	var id ssa.Value
	for _, prm := range fn.Params {
		if prm.Name() == "consumerId" {
			id = prm
		}
	}
	res := 0
	if id != nil && len(fn.Blocks) > 0 {
		res = ts.interp(fn, id, p, depth+1)
	}
	ts.helperTable[name][p] = res
	return res
}

func (ts *typestate) interp(fn *ssa.Function, id ssa.Value, p int64, depth int) int {
	b := fn.Blocks[0]
	var prev *ssa.BasicBlock
	for steps := 0; steps < 200; steps++ {
		last := b.Instrs[len(b.Instrs)-1]
		switch x := last.(type) {
		case *ssa.If:
			v := ts.condUnder(x.Cond, id, p, depth)
			if v == 0 {
				return 0
			}
			prev = b
			if v > 0 {
				b = b.Succs[0]
			} else {
				b = b.Succs[1]
			}
		case *ssa.Jump:
			prev = b
			b = b.Succs[0]
		case *ssa.Return:
			if len(x.Results) != 1 {
				return 0
			}
			return ts.valueUnder(x.Results[0], b, prev, id, p, depth)
		default:
			return 0
		}
	}
	return 0
}

func (ts *typestate) valueUnder(v ssa.Value, b, prev *ssa.BasicBlock, id ssa.Value, p int64, depth int) int {
	if bv, ok := constBool(v); ok {
		if bv {
			return 1
		}
		return -1
	}
	if ph, ok := v.(*ssa.Phi); ok && ph.Block() == b && prev != nil {
		for i, pr := range b.Preds {
			if pr == prev {
				return ts.valueUnder(ph.Edges[i], nil, nil, id, p, depth)
			}
		}
		return 0
	}
	return ts.condUnder(v, id, p, depth)
}

// admittedAt: the phases phase(id) may have (as of the last guard read) when `site` executes,
// judging only by the guards inside site's function. restricted reports whether any guard
// restricted the set.
func (ts *typestate) admittedLocal(site ssa.Instruction, id ssa.Value) (phaseSet, bool) {
	fn := site.Parent()
	out := phaseSet{}
	restricted := false
	for p := int64(0); p <= 5; p++ {
		r := NewReach(fn)
		for _, b := range fn.Blocks {
			iff, ok := b.Instrs[len(b.Instrs)-1].(*ssa.If)
			if !ok {
				continue
			}
			v := ts.condUnder(iff.Cond, id, p, 0)
			if v == 0 {
				continue
			}
			if !ts.guardFresh(iff, site, id) {
				continue
			}
			if v > 0 {
				r.CutEdges[edge{b, b.Succs[1]}] = true
			} else {
				r.CutEdges[edge{b, b.Succs[0]}] = true
			}
		}
		if r.From(nil)[site] {
			out[p] = true
		} else {
			restricted = true
		}
	}
	return out, restricted
}

// guardFresh: no call that may write a phase lies on a path from the guard to the site
// (otherwise the guard speaks about a stale phase).
func (ts *typestate) guardFresh(guard *ssa.If, site ssa.Instruction, id ssa.Value) bool {
	fn := site.Parent()
	after := NewReach(fn).After(guard)
	for in := range after {
		cl, ok := in.(ssa.CallInstruction)
		if !ok || in == site {
			continue
		}
		n := calleeName(cl)
		if n == "" || !ts.phaseWriters[n] {
			continue
		}
		// writer reachable after the guard; is the site reachable after the writer?
		if NewReach(fn).After(in)[site] {
			return false
		}
	}
	return true
}

type axiom struct {
	name string
	pat  Pat
	set  phaseSet
}

func (ts *typestate) axioms() []axiom {
	spawnQueue := func(v ssa.Value) bool {
		for _, r := range elementSource(v) {
			c, i := callOf(r)
			if c == nil || !isCallTo(c, "pk.Keeper.ConsumeIdsFromTimeQueue") || i != 0 {
				return false
			}
			if !PCall("pt.SpawnTimeToConsumerIdsKeyPrefix", -1, nil)(arg(c, 1)) {
				return false
			}
		}
		return len(elementSource(v)) > 0
	}
	return []axiom{
		{"fresh id (FetchAndIncrementConsumerId)", PCall("pk.Keeper.FetchAndIncrementConsumerId", -1, nil), phaseSet{0: true}},
		{"member of the spawn queue (ConsumeIdsFromTimeQueue over the spawn-time prefix)", spawnQueue, phaseSet{2: true}},
		{"consumer bound to a CCV channel (GetChannelIdToConsumerId)", PCall("pk.Keeper.GetChannelIdToConsumerId", 0, nil), phaseSet{3: true, 4: true}},
		{"consumer with a client binding (element of GetAllConsumersWithIBCClients; bindings exist from launch to deletion, C17.R5)", PElemOf(PCall("pk.Keeper.GetAllConsumersWithIBCClients", -1, nil)), phaseSet{3: true, 4: true}},
	}
}

// admitted computes the admitted pre-phase set at site for id, with a textual justification.
func (ts *typestate) admitted(site ssa.Instruction, id ssa.Value, depth int) (phaseSet, string, bool) {
	local, restricted := ts.admittedLocal(site, id)
	fn := site.Parent()
	where := shortName(ssaFuncName(topFn(fn)))
	if restricted {
		return local, fmt.Sprintf("guards in %s admit %s", where, local), true
	}
	for _, ax := range ts.axioms() {
		if ax.pat(id) {
			return ax.set, fmt.Sprintf("axiom in %s: %s ⇒ %s", where, ax.name, ax.set), true
		}
	}
	// parameter: lift to callers
	if prm, ok := strip(id).(*ssa.Parameter); ok && prm.Parent() == fn && fn.Parent() == nil {
		if depth >= 4 {
			return nil, "caller lift depth exceeded at " + where, false
		}
		idx := -1
		for i, x := range fn.Params {
			if x == prm {
				idx = i
			}
		}
		sites, _ := ts.c.Callers(ssaFuncName(fn))
		if len(sites) == 0 {
			return nil, "no callers of " + where, false
		}
		union := phaseSet{}
		var why []string
		for _, s := range sites {
			cl, ok := s.(ssa.CallInstruction)
			if !ok || cl.Common().StaticCallee() != fn {
				return nil, fmt.Sprintf("%s is used as a function value at %s", where, ts.c.P.InstrPos(s)), false
			}
			actual := cl.Common().Args[idx]
			set, w, ok := ts.admitted(s, actual, depth+1)
			if !ok {
				return nil, w, false
			}
			for p := range set {
				union[p] = true
			}
			why = append(why, w)
		}
		sort.Strings(why)
		return union, "via callers of " + where + ": " + strings.Join(why, "; "), true
	}
	return nil, fmt.Sprintf("no guard on the phase of %s in %s and no axiom applies", describe(id), where), false
}
