package main

import (
	"fmt"
	"go/token"
	"go/types"
	"sort"
	"strings"

	"golang.org/x/tools/go/ssa"
)

func init() {
	register(&propDef{
		ID: "C13",
		Explanation: "Decides that no store operation of one consumer can address another consumer's state: every provider key constructor taking a consumer id either ends with the raw id (exact-match spaces) or delimits it with an 8-byte length (so id 1 is never a byte prefix of id 10); " +
			"every prefix iteration over per-consumer state uses exactly prefix·len(id)·id, or is a whole-space scan that recovers the id by parsing the key; every keeper function that has a consumer id in scope passes that same id to every per-consumer key constructor and keeper call it makes (no constants, no foreign ids); " +
			"drivers without an id parameter use one id source per iteration/message; reverse indexes (client<->consumer, channel<->consumer) are written and deleted in pairs, and a client is bound to a consumer only when fresh or not bound to another consumer; shared time-queue slots are modified only for the given id; " +
			"the launch and removal loops run each consumer in its own cached context; every keeper function touching a key space directly belongs to that key space's accessor family, key-constructor arguments agree by name with the caller's parameters, and setters store their value parameter under a key built from their key parameters.",
		NotDecided: []string{"byte-for-byte equality of the other consumer's state after an operation (implied for the module's own store by the rules above; bank/distribution/staking state is outside the module)", "cross-consumer effects through provider-wide validator state (jailing), which the property allows"},
		Run:        runC13,
	})
}

type keySpace struct {
	Name  string // key name of the leading prefix byte
	Ctor  *ssa.Function
	Shape []Seg
	HasID bool
}

func keyCtors(c *Ctx, pkg string) []keySpace {
	ke := &keyEval{p: c.P}
	var out []keySpace
	for _, f := range c.P.ModuleFuncs(pkg) {
		if f.Parent() != nil || f.Signature.Recv() != nil || fnPkgPath(f) != q(pkg) {
			continue
		}
		res := f.Signature.Results()
		if res.Len() != 1 {
			continue
		}
		sl, ok := res.At(0).Type().Underlying().(*types.Slice)
		if !ok {
			continue
		}
		if b, ok := sl.Elem().Underlying().(*types.Basic); !ok || b.Kind() != types.Uint8 {
			continue
		}
		if !strings.Contains(f.Name(), "Key") || strings.HasPrefix(f.Name(), "GetAll") {
			continue
		}
		shape := ke.evalFunc(f, nil, nil)
		ks := keySpace{Name: leadingConst(shape), Ctor: f, Shape: shape}
		for _, s := range shape {
			if s.Src == "param:consumerId" {
				ks.HasID = true
			}
		}
		out = append(out, ks)
	}
	return out
}

// iteratorSites: all iterator constructions in the given packages with the evaluated prefix shape.
type iterSite struct {
	Call  ssa.CallInstruction
	Shape []Seg
	End   []Seg
}

func iteratorSites(c *Ctx, pkgs ...string) []iterSite {
	ke := &keyEval{p: c.P}
	var out []iterSite
	for _, f := range c.P.ModuleFuncs(pkgs...) {
		if o, _ := isOOB(f); o {
			continue // genesis import and store migrations run outside message/block processing
		}
		for _, cl := range AllCalls(f, false) {
			switch {
			case isCallTo(cl, "store.KVStorePrefixIterator", "store.KVStoreReversePrefixIterator"):
				out = append(out, iterSite{Call: cl, Shape: ke.evalBytes(arg(cl, 1), nil)})
			case isCallTo(cl, "store.KVStore.Iterator", "store.KVStore.ReverseIterator"):
				out = append(out, iterSite{Call: cl, Shape: ke.evalBytes(arg(cl, 0), nil), End: ke.evalBytes(arg(cl, 1), nil)})
			}
		}
	}
	return out
}

func runC13(c *Ctx) {
	ke := &keyEval{p: c.P}
	// ---- R1 ------------------------------------------------------------------------------------
	c.Rule("R1", "key-shape soundness: in every provider key constructor a raw consumer id is the last segment (exact-match space) or is immediately preceded by its 8-byte length; every constructor evaluates to a known shape starting with a registered prefix byte", 40)
	ctors := keyCtors(c, "pt")
	registered := registeredPrefixNames(c, "pt.getKeyPrefixes")
	c.Check(len(registered) >= 50, "types.getKeyPrefixes/table", nil, fmt.Sprintf("%d registered key names", len(registered)))
	nID := 0
	for _, ks := range ctors {
		key := "types." + ks.Ctor.Name()
		unk := false
		for _, s := range ks.Shape {
			if s.Kind == SegUnknown {
				unk = true
			}
		}
		if unk || len(ks.Shape) == 0 {
			c.Undecided(key+"/shape", ks.Ctor, "cannot evaluate key shape: "+shapeString(ks.Shape))
			continue
		}
		ok := true
		why := "shape " + shapeString(ks.Shape)
		for _, s := range ks.Shape {
			if s.Kind == SegConst && !strings.HasPrefix(s.Src, "param:") && !registered[s.Src] {
				ok = false
				why += "; prefix name " + s.Src + " is not registered in getKeyPrefixes (mustGetKeyPrefix would panic)"
			}
		}
		for i, s := range ks.Shape {
			if s.Kind != SegRaw {
				continue
			}
			isLast := i == len(ks.Shape)-1
			delimited := i > 0 && ks.Shape[i-1].Kind == SegLen8 && ks.Shape[i-1].Src == s.Src
			if !isLast && !delimited {
				ok = false
				why += fmt.Sprintf("; variable-length segment %s is neither last nor length-delimited", s)
			}
			if s.Src == "param:consumerId" || s.Src == "param:stringId" {
				nID++
			}
		}
		c.Check(ok, key+"/shape", ks.Ctor, why)
	}
	c.Check(nID >= 28, "types/per-consumer-key-spaces", nil, fmt.Sprintf("%d key constructors carry a consumer id (floor 28)", nID))

	// ---- R2 ------------------------------------------------------------------------------------
	c.Rule("R2", "prefix iterations: a per-consumer iteration uses exactly Const·Len8(id)·Raw(id) (never Const·Raw(id)); whole-space scans (Const only) are confined to functions that recover the id from the key or are not per-consumer", 20)
	wholeSpaceOK := map[string]string{
		"keeper.Keeper.GetAllConsumersWithIBCClients":       "id = key[1:] (exact-match space consumer->client)",
		"keeper.Keeper.GetAllChannelToConsumers":            "keyed by channel id; value is the consumer id",
		"keeper.Keeper.GetAllValsetUpdateBlockHeights":      "global table keyed by update id",
		"keeper.Keeper.GetAllValidatorConsumerPubKeys":      "nil id: scans all consumers, parses id from key (ParseStringIdAndConsAddrKey)",
		"keeper.Keeper.GetAllValidatorsByConsumerAddr":      "nil id: scans all consumers, parses id from key",
		"keeper.Keeper.ConsumeIdsFromTimeQueue":             "time queue keyed by time; value is the id list",
		"keeper.Keeper.GetConsumerInfractionUpdateTime":     "time queue keyed by time; ids compared for equality",
		"keeper.Keeper.GetAllConsumerRewardDenoms":          "global denom registry",
		"keeper.Keeper.GetLastProviderConsensusValSet":      "provider's own set",
		"keeper.Keeper.DeleteLastProviderConsensusValSet":   "provider's own set",
		"keeper.Keeper.getValSet":                           "generic helper: prefix supplied by the caller (checked at the callers' constructors)",
		"keeper.Keeper.deleteValSet":                        "generic helper: prefix supplied by the caller",
		"keeper.Keeper.getTotalPower":                       "generic helper: prefix supplied by the caller",
		"keeper.Keeper.GetAllConsumerIdsFromSpawnTimeQueue": "time queue",
	}
	its := iteratorSites(c, "pk", "provider")
	for _, it := range its {
		f := topFn(it.Call.Parent())
		name := shortName(ssaFuncName(f))
		key := fk(f, "iterator")
		sh := it.Shape
		desc := "prefix " + shapeString(sh)
		if it.End != nil {
			desc += " .. " + shapeString(it.End)
		}
		// phi of {whole space, per consumer}: evaluate both alternatives
		alts := [][]Seg{sh}
		if len(sh) == 1 && sh[0].Kind == SegUnknown && strings.HasPrefix(sh[0].Src, "phi{") {
			alts = nil
			for _, p := range strings.Split(strings.TrimSuffix(strings.TrimPrefix(sh[0].Src, "phi{"), "}"), " | ") {
				alts = append(alts, parseShape(p))
			}
		}
		ok := true
		for _, a := range alts {
			switch {
			case len(a) == 1 && a[0].Kind == SegConst:
				if _, allowed := wholeSpaceOK[name]; !allowed {
					ok = false
					desc += "; whole-space scan in a function not listed as id-recovering"
				}
			case len(a) == 1 && a[0].Kind == SegRaw && strings.HasPrefix(a[0].Src, "param:"):
				if _, allowed := wholeSpaceOK[name]; !allowed {
					ok = false
					desc += "; caller-supplied prefix in an unlisted helper"
				}
			case len(a) == 3 && a[0].Kind == SegConst && a[1].Kind == SegLen8 && a[2].Kind == SegRaw && a[1].Src == a[2].Src:
				// exact per-consumer prefix
			default:
				ok = false
				desc += "; not a whole-space scan and not Const·Len8(id)·Raw(id)"
			}
		}
		c.Check(ok, key, it.Call, desc)
	}
	// generic helpers: their callers must pass a constructor-built prefix
	for _, h := range []string{"pk.Keeper.getValSet", "pk.Keeper.deleteValSet", "pk.Keeper.getTotalPower", "pk.Keeper.setValSet", "pk.Keeper.setValidator", "pk.Keeper.deleteValidator", "pk.Keeper.isValidator"} {
		if c.P.Func(h) == nil {
			continue
		}
		sites, _ := c.Callers(h)
		for _, s := range sites {
			cl, ok := s.(ssa.CallInstruction)
			if !ok {
				continue
			}
			sh := ke.evalBytes(arg(cl, 1), nil)
			f := topFn(s.Parent())
			if _, helper := wholeSpaceOK[shortName(ssaFuncName(f))]; helper || strings.HasSuffix(ssaFuncName(f), ".setValSet") {
				continue // helper-to-helper call: the prefix is still the caller's parameter
			}
			okS := len(sh) >= 1 && sh[0].Kind == SegConst && (len(sh) == 1 || (len(sh) == 3 && sh[1].Kind == SegLen8 && sh[2].Kind == SegRaw && sh[1].Src == sh[2].Src))
			c.Check(okS, fk(f, "valset-prefix", shortName(q(h))), s, "prefix passed to the generic validator-set helper: "+shapeString(sh))
		}
	}

	// ---- R3 ------------------------------------------------------------------------------------
	c.Rule("R3", "id provenance: a keeper function with a consumerId parameter passes exactly that parameter to every per-consumer key constructor and to every keeper function with a consumerId parameter; functions without one (drivers, handlers) draw every id they pass from one accepted source per call site (message field, loop element of an all-consumers getter, id bound to a channel/client, fresh id, id parsed from a key, time-queue element)", 150)
	runIdProvenance(c)

	// ---- R6 ------------------------------------------------------------------------------------
	c.Rule("R6", "accessor agreement (provider keeper): every function touching a key space directly belongs to that key space's accessor family (a swapped key constructor reads or writes another record family); key-constructor parameters receive the caller's parameter of the same name; setters store bytes derived from their value parameter under a key derived from their key parameters", 150)
	checkAccessorAgreement(c, "pk")
	checkKeyArgNames(c, "pk")
	checkSetterValues(c, "pk", nil)
	checkIterDelete(c, 6, "pk")
	checkCollectors(c, "pk", "GetAllChannelToConsumers", "GetAllCommissionRateValidators", "GetAllConsumerAddrsToPrune", "GetAllConsumerIds", "GetAllConsumerRewardDenoms", "GetAllConsumersWithIBCClients", "GetAllOptedIn", "GetAllValidatorConsumerPubKeys", "GetAllValidatorsByConsumerAddr", "GetAllValsetUpdateBlockHeights", "GetAllowList")

	// ---- R4 ------------------------------------------------------------------------------------
	c.Rule("R4", "failure isolation: the launch loop and the removal loop run each consumer on its own CacheContext created inside the loop body, committed only on success (details in C19.R1)", 4)
	for _, spec := range []struct{ fn, op string }{{"pk.Keeper.BeginBlockLaunchConsumers", "pk.Keeper.LaunchConsumer"}, {"pk.Keeper.BeginBlockRemoveConsumers", "pk.Keeper.DeleteConsumerChain"}} {
		checkCachedLoop(c, spec.fn, spec.op)
	}

	c.Rule("R7", "no data flows between iterations of a per-consumer loop: in the provider keeper and module, a loop-carried variable whose next value depends on the loop's consumer id is an accumulator read only after the loop; every per-consumer driver loop is analysed, including those without any carried variable", 4)
	var loopFns []*ssa.Function
	for _, f := range c.P.ModuleFuncs("pk", "provider") {
		if f.Parent() == nil && !isTestFile(c.P, f) {
			loopFns = append(loopFns, f)
		}
	}
	checkCarriedState(c, loopFns, 3)
	for _, spec := range []string{"pk.Keeper.AllocateTokens", "pk.Keeper.QueueVSCPackets", "pk.Keeper.SendVSCPackets", "pk.Keeper.BeginBlockLaunchConsumers", "pk.Keeper.BeginBlockRemoveConsumers", "pk.Keeper.BeginBlockUpdateInfractionParameters", "pk.Keeper.EndBlockCIS"} {
		if f := c.Fn(spec); f != nil {
			bad := 0
			for _, cf := range carriedState(f) {
				if cf.Use != nil {
					bad++
				}
			}
			c.Check(bad == 0, fk(f, "iterations-independent"), f, "per-consumer driver loop: no carried variable depending on a consumer id is consumed inside the loop")
		}
	}

	// ---- R5 ------------------------------------------------------------------------------------
	c.Rule("R5", "reverse-index pairing and injectivity: SetConsumerClientId/DeleteConsumerClientId keep consumer->client and client->consumer in step; SetConsumerChain writes both channel indexes for the same pair; a client is bound only when fresh (CreateClient) or when the reverse index shows no other consumer; time-queue removal only touches the slot after finding the id in it", 12)
	checkBindingPairs(c, true)
}

func parseShape(s string) []Seg {
	var out []Seg
	for _, p := range strings.Split(s, "·") {
		i := strings.Index(p, "(")
		if i < 0 {
			out = append(out, Seg{SegUnknown, p})
			continue
		}
		kind := map[string]SegKind{"Const": SegConst, "Raw": SegRaw, "Len8": SegLen8, "U64": SegU64, "Time": SegTime, "Fixed": SegFixed}[p[:i]]
		if _, ok := map[string]bool{"Const": true, "Raw": true, "Len8": true, "U64": true, "Time": true, "Fixed": true}[p[:i]]; !ok {
			kind = SegUnknown
		}
		out = append(out, Seg{kind, strings.TrimSuffix(p[i+1:], ")")})
	}
	return out
}

// hasConsumerIdParam returns the index (into Params) of a parameter named consumerId of string type.
func consumerIdParam(f *ssa.Function) int {
	for i, p := range f.Params {
		if p.Name() == "consumerId" {
			if b, ok := p.Type().Underlying().(*types.Basic); ok && b.Kind() == types.String {
				return i
			}
			if pt, ok := p.Type().Underlying().(*types.Pointer); ok {
				if b, ok := pt.Elem().Underlying().(*types.Basic); ok && b.Kind() == types.String {
					return i
				}
			}
		}
	}
	return -1
}

// acceptedIdSource classifies an id value used by a driver: every root must be accepted.
func acceptedIdSource(v ssa.Value, fnName string) (string, bool) {
	var descs []string
	if a, ok := v.(*ssa.Alloc); ok {
		// &id: a local cell holding the id
		for _, r := range *a.Referrers() {
			if st, ok := r.(*ssa.Store); ok && st.Addr == ssa.Value(a) {
				d, ok := acceptedIdSource(st.Val, fnName)
				if !ok {
					return d, false
				}
				descs = append(descs, "&("+d+")")
			}
		}
		if len(descs) > 0 {
			return strings.Join(descs, " | "), true
		}
	}
	for _, r := range roots(v) {
		d, ok := acceptedIdRoot(r, fnName)
		if !ok {
			return d, false
		}
		descs = append(descs, d)
	}
	if len(descs) == 0 {
		return describe(v), false
	}
	sort.Strings(descs)
	return strings.Join(descs, " | "), true
}

// constant ids accepted in exactly one function each, with the reason
var constantIdOK = map[string]map[string]string{
	"provider.IBCMiddleware.OnRecvPacket": {"1": "Cosmos Hub patch: rewards of Stride (consumer id 1) arriving on its canonical transfer channel; guarded by chain id, channel and a GetConsumerChainId sanity check in the code"},
}

func acceptedIdRoot(v ssa.Value, fnName string) (string, bool) {
	switch {
	case PField(PAny(), "ConsumerId")(v):
		return "field ConsumerId of a message / request / memo", true
	case PCall("pk.Keeper.FetchAndIncrementConsumerId", -1, nil)(v):
		return "fresh id", true
	case PCall("pk.Keeper.GetChannelIdToConsumerId", 0, nil)(v):
		return "id bound to the packet's channel", true
	case PCall("pk.Keeper.GetClientIdToConsumerId", 0, nil)(v):
		return "id bound to the connection's client", true
	case PCall("pk.Keeper.IdentifyConsumerIdFromIBCPacket", 0, nil)(v):
		return "id identified from the IBC packet's underlying client", true
	case PCall("pt.ParseStringIdWithLenKey;pt.ParseStringIdAndConsAddrKey;pt.ParseStringIdAndTsKey;pt.ParseStringIdAndUintIdKey", 0, nil)(v):
		return "id parsed from an iterated key", true
	case PElemOf(PCall("pk.Keeper.GetAllConsumersWithIBCClients;pk.Keeper.GetAllActiveConsumerIds;pk.Keeper.GetAllConsumerIds", -1, nil))(v):
		return "loop element of an all-consumers getter", true
	case PElemOf(PCall("pk.Keeper.ConsumeIdsFromTimeQueue", 0, nil))(v):
		return "element of a consumed time queue", true
	case PElemOf(PField(PAny(), "Ids"))(v):
		return "element of a stored id list", true
	case PCall("fmt.Sprintf", -1, nil)(v):
		return "decimal id generated from the id counter range", true
	case PCall("strconv.FormatUint", -1, nil)(v):
		return "decimal id generated from the id counter range", true
	case isNilConst(v):
		return "nil (all consumers)", true
	}
	if s, ok := constString(v); ok {
		if why, ok := constantIdOK[fnName][s]; ok {
			return "constant \"" + s + "\": " + why, true
		}
		return "constant id \"" + s + "\"", false
	}
	if _, n, ok := fieldLoadOf(v); ok && (n == "ConsumerId" || n == "ChainId") {
		return "field " + n + " of a stored/decoded record", true
	}
	if c, _ := callOf(v); c != nil && isCallTo(c, "builtin.string") {
		return "converted bytes", true
	}
	if cv, ok := v.(*ssa.Convert); ok {
		// string(iterator.Key()[1:]) / string(bz): id recovered from a key or stored value
		_ = cv
		return "id recovered from stored bytes", true
	}
	return describe(v), false
}

func runIdProvenance(c *Ctx) {
	type use struct {
		site   ssa.CallInstruction
		callee string
		actual ssa.Value
	}
	for _, f := range c.P.ModuleFuncs("pk", "provider") {
		if o, _ := isOOB(f); o {
			continue
		}
		top := topFn(f)
		pk := fnPkgPath(top)
		if strings.HasSuffix(pk, "/client/cli") || strings.Contains(pk, "/migrations") || strings.HasSuffix(pk, "/types") {
			continue
		}
		var uses []use
		for _, cl := range AllCalls(f, false) {
			callee := cl.Common().StaticCallee()
			if callee == nil {
				continue
			}
			cp := fnPkgPath(callee)
			if cp != q("pk") && cp != q("pt") {
				continue
			}
			idx := consumerIdParam(callee)
			if idx < 0 {
				continue
			}
			if idx >= len(cl.Common().Args) {
				continue
			}
			uses = append(uses, use{cl, ssaFuncName(callee), cl.Common().Args[idx]})
		}
		if len(uses) == 0 {
			continue
		}
		own := consumerIdParam(f)
		ownTop := -1
		if f.Parent() != nil {
			ownTop = consumerIdParam(top)
		}
		for _, u := range uses {
			key := fk(top, "id-arg", shortName(u.callee))
			switch {
			case own >= 0:
				p := f.Params[own]
				ok := strip(u.actual) == ssa.Value(p) || isAddrOfParam(u.actual, p) || isDerefOfParam(u.actual, p)
				c.Check(ok, key, u.site, "passes its own consumerId parameter; found "+describe(u.actual))
			case ownTop >= 0:
				// closure inside a function with an id parameter: must use the captured id
				ok := false
				if fv, isFV := strip(u.actual).(*ssa.FreeVar); isFV && fv.Name() == "consumerId" {
					ok = true
				}
				if u2, isU := strip(u.actual).(*ssa.UnOp); isU {
					if fv, isFV := u2.X.(*ssa.FreeVar); isFV && fv.Name() == "consumerId" {
						ok = true
					}
				}
				c.Check(ok, key, u.site, "closure passes the captured consumerId of its enclosing function; found "+describe(u.actual))
			default:
				src, ok := acceptedIdSource(u.actual, shortName(ssaFuncName(top)))
				c.Check(ok, key, u.site, "id source: "+src)
			}
		}
		// drivers: all ids passed within one function body come from one source value, except listed multi-id functions
		if own < 0 && ownTop < 0 && !readOnlyEntry(c, top) {
			keys := map[string]bool{}
			for _, u := range uses {
				shared := false
				for _, o := range uses[:1] {
					shared = sameVal(o.actual, u.actual) || sharesRoots(o.actual, u.actual)
				}
				if shared {
					keys["same-source"] = true
				} else {
					keys[vkey(u.actual)] = true
				}
			}
			multi := map[string]string{
				"keeper.Hooks.AfterValidatorRemoved": "iterates entries of all consumers; each deletion uses the entry's own ChainId (checked in C05.R5)",
			}
			name := shortName(ssaFuncName(top))
			if _, listed := multi[name]; !listed {
				var ks []string
				for k := range keys {
					ks = append(ks, k)
				}
				sort.Strings(ks)
				c.Check(len(keys) == 1, fk(top, "single-id-source"), f, fmt.Sprintf("all per-consumer calls in this driver use one id value (%d distinct: %s)", len(keys), strings.Join(ks, ", ")))
			}
		}
	}
}

func isAddrOfParam(v ssa.Value, p *ssa.Parameter) bool {
	// &consumerId where consumerId was spilled: a cell whose only store is the parameter
	a, ok := v.(*ssa.Alloc)
	if !ok {
		return false
	}
	n := 0
	for _, r := range *a.Referrers() {
		if st, ok := r.(*ssa.Store); ok && st.Addr == ssa.Value(a) {
			n++
			if st.Val != ssa.Value(p) {
				return false
			}
		}
	}
	return n == 1
}

func isDerefOfParam(v ssa.Value, p *ssa.Parameter) bool {
	u, ok := v.(*ssa.UnOp)
	if !ok {
		return false
	}
	if u.X == ssa.Value(p) {
		return true
	}
	return isAddrOfParam(u.X, p)
}

// readOnlyEntry: query servers and genesis export iterate over many consumers by design.
func readOnlyEntry(c *Ctx, f *ssa.Function) bool {
	file := c.P.fileOf(f)
	return strings.HasSuffix(file, "grpc_query.go") || strings.HasSuffix(file, "genesis.go") || strings.HasSuffix(file, "invariants.go")
}

// checkCachedLoop: op(cachedCtx, …) is called on a context created by ctx.CacheContext() in the
// same loop iteration (the CacheContext call is inside the loop).
func checkCachedLoop(c *Ctx, fnSpec, opSpec string) {
	f := c.Fn(fnSpec)
	if f == nil {
		return
	}
	op := c.one(f, false, opSpec)
	if op == nil {
		return
	}
	cc, idx := callOf(arg(op, 0))
	ok := cc != nil && isCallTo(cc, "sdk.Context.CacheContext") && idx == 0 && PParam("ctx")(callRecv(cc))
	c.Check(ok, fk(f, "cached-context"), op, "the per-consumer operation receives ctx.CacheContext() of the outer context; found "+describe(arg(op, 0)))
	if ok {
		c.Check(inLoop(cc) && inLoop(op), fk(f, "cache-per-iteration"), cc, "a fresh cache is created in every iteration of the per-consumer loop (so one consumer's discarded writes never travel with another's commit)")
		// the commit is an immediate call inside the iteration: a deferred or stored commit makes all
		// operations of the block run against the pre-block state and see none of each other's writes
		if w := extractOf(cc, 1); w != nil {
			direct, other := 0, ""
			for _, r := range *w.Referrers() {
				switch x := r.(type) {
				case *ssa.Call:
					if x.Call.Value == w && inLoop(x) {
						direct++
					} else {
						other = "passed on at " + c.P.InstrPos(x)
					}
				case *ssa.DebugRef:
				default:
					other = fmt.Sprintf("%T at %s", r, c.P.InstrPos(r))
				}
			}
			c.Check(direct >= 1 && other == "", fk(f, "commit-within-iteration"), cc, "the cache's write function is only ever called directly, inside the loop body"+map[bool]string{true: "", false: "; found " + other}[other == ""])
		}
	}
}

func checkBindingPairs(c *Ctx, withQueues bool) {
	ke := &keyEval{p: c.P}
	// SetConsumerClientId: forward Set(consumer->client) and reverse Set(client->consumer) with swapped roles
	if f := c.Fn("pk.Keeper.SetConsumerClientId"); f != nil {
		var fwd, rev, delPrev int
		for _, cl := range Calls(f, false, "store.KVStore.Set") {
			sh := shapeString(ke.evalBytes(arg(cl, 0), nil))
			val := arg(cl, 1)
			switch {
			case strings.HasPrefix(sh, "Const(ConsumerIdToClientIdKey)·Raw(param:consumerId)") && convOfParam(val, "clientId"):
				fwd++
			case strings.HasPrefix(sh, "Const(ClientIdToConsumerIdKey)·Len8(param:clientId)·Raw(param:clientId)") && convOfParam(val, "consumerId"):
				rev++
			default:
				c.Check(false, fk(f, "unexpected-write"), cl, "unexpected store write "+sh)
			}
		}
		for _, cl := range Calls(f, false, "store.KVStore.Delete") {
			sh := ke.evalBytes(arg(cl, 0), nil)
			if leadingConst(sh) == "ClientIdToConsumerIdKey" {
				delPrev++
			}
		}
		c.Check(fwd == 1 && rev == 1, fk(f, "writes-both-indexes"), f, "writes consumer->client and client->consumer for the same pair")
		c.Check(delPrev == 1, fk(f, "drops-stale-reverse-entry"), f, "a rebinding removes the reverse entry of the previous client")
	}
	if f := c.Fn("pk.Keeper.DeleteConsumerClientId"); f != nil {
		n := map[string]int{}
		for _, cl := range Calls(f, false, "store.KVStore.Delete") {
			n[leadingConst(ke.evalBytes(arg(cl, 0), nil))]++
		}
		c.Check(n["ConsumerIdToClientIdKey"] == 1 && n["ClientIdToConsumerIdKey"] == 1, fk(f, "deletes-both-indexes"), f, "deletes both directions")
		for _, cl := range Calls(f, false, "store.KVStore.Delete") {
			sh := ke.evalBytes(arg(cl, 0), nil)
			if leadingConst(sh) == "ClientIdToConsumerIdKey" {
				g, _ := callOf(arg(arg2call(arg(cl, 0)), 0))
				ok := g != nil && isCallTo(g, "pk.Keeper.GetConsumerClientId") && PParam("consumerId")(arg(g, 1))
				c.Check(ok, fk(f, "reverse-entry-of-own-client"), cl, "the reverse entry deleted is that of the client currently bound to this consumer")
			}
		}
	}
	// injective binding
	sites, _ := c.Callers("pk.Keeper.SetConsumerClientId")
	for _, s := range sites {
		cl, ok := s.(ssa.CallInstruction)
		f := topFn(s.Parent())
		if !ok {
			c.Undecided(fk(f, "client-binding"), s, "SetConsumerClientId used as a value")
			continue
		}
		client := arg(cl, 2)
		id := arg(cl, 1)
		if PCall("ccv.ClientKeeper.CreateClient", 0, nil)(client) {
			c.Check(true, fk(f, "client-binding-injective"), s, "binds a freshly created client")
			continue
		}
		other := ABool("client already bound", PCall("pk.Keeper.GetClientIdToConsumerId", 1, nil, nil, PIs(client)))
		differs := AEq("bound consumer == this consumer", PCall("pk.Keeper.GetClientIdToConsumerId", 0, nil, nil, PIs(client)), PIs(id))
		r, counts := reachUnder(s.Parent(), T(other), F(differs))
		okI := counts[0] > 0 && counts[1] > 0 && !r.From(nil)[s]
		// the guard may not be weakened by further conjuncts: with "bound to another consumer" fixed, no other test may re-open the path
		c.Check(okI, fk(f, "client-binding-injective"), s, "an existing client is bound only if the reverse index shows no other consumer (unreachable when GetClientIdToConsumerId(client) found ∧ ≠ this consumer)")
	}
	// channel indexes
	if f := c.Fn("pk.Keeper.SetConsumerChain"); f != nil {
		a := c.one(f, false, "pk.Keeper.SetConsumerIdToChannelId")
		b := c.one(f, false, "pk.Keeper.SetChannelToConsumerId")
		if a != nil && b != nil {
			c.Check(sameVal(arg(a, 1), arg(b, 2)) && sameVal(arg(a, 2), arg(b, 1)), fk(f, "channel-pair"), a, "both channel indexes are written for the same (consumer, channel) pair")
			c.Check(PParam("channelID")(arg(a, 2)) && PCall("pk.Keeper.GetClientIdToConsumerId", 0, nil)(arg(a, 1)), fk(f, "channel-pair-roles"), a, "consumer = the one bound to the channel's client; channel = the channelID parameter")
		}
	}
	c.OnlyCalledFrom("pk.Keeper.SetConsumerIdToChannelId", "pk.Keeper.SetConsumerChain")
	c.OnlyCalledFrom("pk.Keeper.SetChannelToConsumerId", "pk.Keeper.SetConsumerChain")
	if f := c.Fn("pk.Keeper.DeleteConsumerChain"); f != nil {
		a := c.one(f, false, "pk.Keeper.DeleteConsumerIdToChannelId")
		b := c.one(f, false, "pk.Keeper.DeleteChannelIdToConsumerId")
		if a != nil && b != nil {
			ok := PParam("consumerId")(arg(a, 1)) && PCall("pk.Keeper.GetConsumerIdToChannelId", 0, nil, nil, PParam("consumerId"))(arg(b, 1))
			c.Check(ok, fk(f, "channel-pair-deleted"), a, "both channel indexes of this consumer are deleted together")
		}
	}
	// shared time-queue slots: removal deletes/rewrites the slot only after the id was found in it
	if f := c.Fn("pk.Keeper.removeConsumerIdFromTime"); f != nil && withQueues {
		notFound := Atom{"index == -1", cmpAtom(func(op token.Token, x, y ssa.Value) (bool, bool) {
			if (op == token.EQL || op == token.NEQ) && (PConstInt(-1)(y) || PConstInt(-1)(x)) {
				return true, op == token.EQL
			}
			return false, false
		})}
		n := 0
		for _, cl := range Calls(f, false, "store.KVStore.Delete", "store.KVStore.Set") {
			n++
			c.GuardedBy(cl, fk(f, "slot-touched-only-if-member", shortName(calleeName(cl))), notFound.Not())
		}
		c.Check(n == 2, fk(f, "slot-writes"), f, "one delete (last member) and one rewrite")
		// the membership loop compares against the consumerId parameter
		cmp := false
		for _, in := range allInstrs(f) {
			if b, ok := in.(*ssa.BinOp); ok && b.Op == token.EQL {
				if isParam(b.Y, "consumerId") || isParam(b.X, "consumerId") {
					cmp = true
				}
			}
		}
		c.Check(cmp, fk(f, "membership-by-own-id"), f, "membership is decided by comparing with the consumerId parameter")
	}
}

func convOfParam(v ssa.Value, name string) bool {
	if cv, ok := v.(*ssa.Convert); ok {
		return isParam(cv.X, name)
	}
	return false
}

// arg2call: v is a call result; return the call instruction (nil otherwise).
func arg2call(v ssa.Value) ssa.CallInstruction {
	c, _ := callOf(v)
	if c == nil {
		return nilCall{}
	}
	return c
}

type nilCall struct{ ssa.CallInstruction }

func (nilCall) Common() *ssa.CallCommon { return &ssa.CallCommon{} }

// registeredPrefixNames: the string keys of the map literal returned by getKeyPrefixes.
func registeredPrefixNames(c *Ctx, spec string) map[string]bool {
	out := map[string]bool{}
	f := c.Fn(spec)
	if f == nil {
		return out
	}
	for _, in := range allInstrs(f) {
		if mu, ok := in.(*ssa.MapUpdate); ok {
			if s, ok := constString(mu.Key); ok {
				out[s] = true
			}
		}
	}
	return out
}
