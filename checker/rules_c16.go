package main

import (
	"go/token"

	"golang.org/x/tools/go/ssa"
)

func init() {
	register(&propDef{
		ID: "C16",
		Explanation: "Decides the structure of the reward flow only: on the consumer the two transfers out of the fee collector are truncate(balance x fraction) and balance - first, of one balance read; the provider share is sent only in allowed denoms, on an OPEN transfer channel, with the consumer's reward memo, inside a cached context, on the configured block period; " +
			"the provider middleware credits only successful transfers addressed to the rewards pool, to the consumer identified by memo/client, adding exactly the packet's amount and denom; allocation happens per (consumer, denom) on its own cache and the remaining credit is written back before the commit; the amount moved to the distribution account is the amount handed to validators, the remainders stay credited; " +
			"validators are paid only from the consumer's stored validator set, filtered by the same eligibility predicate that computes the total power, in proportion Power/total, under their per-consumer commission.",
		NotDecided: []string{"conservation and never-overpaying as arithmetic facts (decimal truncation over runtime amounts and bank balances)", "behaviour of the bank, distribution and transfer modules", "timing of relays and timeouts of reward transfers"},
		Run:        runC16,
	})
}

func runC16(c *Ctx) {
	// ---- R1 ------------------------------------------------------------------------------------
	c.Rule("R1", "consumer split: consumer share = truncate(feeCollectorBalance x ConsumerRedistributionFrac), provider share = the same balance minus the consumer share; both from the fee collector, to the redistribute and to-send accounts respectively", 5)
	if f := c.Fn("ck.Keeper.DistributeRewardsInternally"); f != nil {
		bal := PCall("ccv.BankKeeper.GetAllBalances", -1, nil, nil, nil)
		sends := Calls(f, false, "ccv.BankKeeper.SendCoinsFromModuleToModule")
		c.Check(len(sends) == 2, fk(f, "two-transfers"), f, "two module-to-module transfers")
		if len(sends) == 2 {
			first := PCall("sdk.DecCoins.TruncateDecimal", 0, PCall("sdk.DecCoins.MulDec", -1, PCall("sdk.NewDecCoinsFromCoins", -1, nil, bal), PCall("math.LegacyNewDecFromStr", 0, nil, PCall("ck.Keeper.GetConsumerRedistributionFrac", -1, nil))))
			c.Check(first(arg(sends[0], 3)), fk(f, "consumer-share"), sends[0], "first transfer = truncate(balance x fraction); found "+describe(arg(sends[0], 3)))
			second := PCall("sdk.Coins.Sub", -1, bal, nil)
			okSecond := second(arg(sends[1], 3))
			if sub, _ := callOf(arg(sends[1], 3)); okSecond && sub != nil {
				okSecond = sameVal(callRecv(sub), balanceOf(arg(sends[0], 3))) && sameVal(arg(sub, 0), arg(sends[0], 3))
			}
			c.Check(okSecond, fk(f, "provider-share-is-remainder"), sends[1], "second transfer = the same balance minus exactly the first transfer; found "+describe(arg(sends[1], 3)))
			red, _ := c.StringConst("ct.ConsumerRedistributeName")
			snd, _ := c.StringConst("ct.ConsumerToSendToProviderName")
			d0, _ := constString(arg(sends[0], 2))
			d1, _ := constString(arg(sends[1], 2))
			c.Check(d0 == red && d1 == snd, fk(f, "destinations"), sends[1], "consumer share -> redistribute account, remainder -> to-send-to-provider account")
			c.Check(sameVal(arg(sends[0], 1), arg(sends[1], 1)), fk(f, "same-source"), sends[0], "both transfers leave the fee collector")
			c.Check(mustPassBefore(sends[1], sends[0]), fk(f, "order"), sends[1], "consumer share first, then the remainder")
		}
	}

	// ---- R2 ------------------------------------------------------------------------------------
	c.Rule("R2", "consumer transmission: SendRewardsToProvider transfers only balances of AllowedRewardDenoms, only when the transfer channel is OPEN, with the reward memo of this consumer; EndBlockRD runs it in a cached context committed only on success, on the block period, and always records the transmission height", 9)
	if f := c.Fn("ck.Keeper.SendRewardsToProvider"); f != nil {
		open, _ := c.ConstVal("chantypes.OPEN")
		ch := func(i int) Pat {
			return PCall("ccv.ChannelKeeper.GetChannel", i, nil, nil, nil, PCall("ck.Keeper.GetDistributionTransmissionChannel", -1, nil))
		}
		found := ABool("transfer channel found", ch(1))
		isOpen := AEq("channel state == OPEN", PField(ch(0), "State"), PConstInt(open))
		tr := c.one(f, false, "ccv.IBCTransferKeeper.Transfer")
		if tr != nil {
			c.GuardedBy(tr, fk(f, "only-open-channel"), found, isOpen)
			denom := PElemOf(PCall("ck.Keeper.AllowedRewardDenoms", -1, nil))
			bal := PCall("ccv.BankKeeper.GetBalance", -1, nil, nil, nil, denom)
			msg := structLitFieldsPtr(arg(tr, 1))
			c.Check(msg != nil && bal(msg["Token"]), fk(f, "allowed-denoms-only"), tr, "the transferred token is the to-send account's balance in a denom of AllowedRewardDenoms")
			if msg != nil {
				c.Check(PCall("ccv.CreateTransferMemo", 0, nil, PCall("ck.Keeper.GetConsumerId", -1, nil), nil)(msg["Memo"]), fk(f, "reward-memo"), tr, "the memo is the reward memo carrying this consumer's id; found "+describe(msg["Memo"]))
				c.Check(PCall("ck.Keeper.GetProviderFeePoolAddrStr", -1, nil)(msg["Receiver"]), fk(f, "receiver-is-provider-pool"), tr, "receiver = the provider's reward pool address learnt in the handshake")
				c.Check(PCall("ck.Keeper.GetDistributionTransmissionChannel", -1, nil)(msg["SourceChannel"]), fk(f, "on-transmission-channel"), tr, "sent on the distribution transmission channel")
			}
			trOK := AErrNil("Transfer ok", PIs(extractOf(tr, 1)))
			for _, r := range successReturns(f) {
				c.NoPathAfterWhen(tr, r, fk(f, "failed-transfer-is-error"), F(trOK))
			}
		}
	}
	if f := c.Fn("ck.Keeper.EndBlockRD"); f != nil {
		due := ABool("shouldSendRewardsToProvider", PCall("ck.Keeper.shouldSendRewardsToProvider", -1, nil))
		if s := c.one(f, false, "ck.Keeper.SendRewardsToProvider"); s != nil {
			c.GuardedBy(s, fk(f, "on-period-only"), due)
		}
		if st := c.one(f, false, "ck.Keeper.SetLastTransmissionBlockHeight"); st != nil {
			for _, r := range reachableReturns(f, T(due)) {
				c.MustPassWhen(r, []ssa.Instruction{st}, fk(f, "records-transmission-height"), T(due))
			}
			lit := structLitFields(arg(st, 1))
			c.Check(lit != nil && PCall("sdk.Context.BlockHeight", -1, nil)(lit["Height"]), fk(f, "height-is-current"), st, "the recorded height is the current block height")
		}
		if d := c.one(f, false, "ck.Keeper.DistributeRewardsInternally"); d != nil {
			for _, r := range Returns(f) {
				c.Check(mustPassBefore(r, d), fk(f, "splits-every-block"), r, "fees are split every block")
			}
		}
	}
	if f := c.Fn("ck.Keeper.shouldSendRewardsToProvider"); f != nil {
		for _, r := range Returns(f) {
			b, ok := r.Results[0].(*ssa.BinOp)
			okR := ok && b.Op == token.GEQ && PCall("ck.Keeper.GetBlocksPerDistributionTransmission", -1, nil)(b.Y)
			if okR {
				sub, isS := b.X.(*ssa.BinOp)
				okR = isS && sub.Op == token.SUB && PCall("sdk.Context.BlockHeight", -1, nil)(sub.X) && PField(PCall("ck.Keeper.GetLastTransmissionBlockHeight", -1, nil), "Height")(sub.Y)
			}
			c.Check(okR, fk(f, "period-test"), r, "due iff currentHeight - lastTransmissionHeight >= BlocksPerDistributionTransmission; found "+describe(r.Results[0]))
		}
	}

	checkAccessorAgreement(c, "ck", "LastDistributionTransmissionKey", "ParametersKey")
	checkSetterValues(c, "ck", []string{"LastTransmissionBlockHeight"})
	checkParamGetters(c, "ck", "GetBlocksPerDistributionTransmission", "GetConsumerRedistributionFrac", "GetDistributionTransmissionChannel", "GetProviderFeePoolAddrStr", "GetRewardDenoms", "GetProviderRewardDenoms", "GetTransferTimeoutPeriod")
	checkParamGetters(c, "pk", "GetNumberOfEpochsToStartReceivingRewards")

	// ---- R4 ------------------------------------------------------------------------------------
	c.Rule("R4", "provider crediting: the middleware writes an allocation only when the transfer ack is a success and the receiver is the rewards pool; the consumer credited is the one named by the reward memo or identified from the packet's client; the credit is the stored allocation plus exactly the packet's denom/amount", 6)
	if f := c.Fn("provider.IBCMiddleware.OnRecvPacket"); f != nil {
		ackOK := ABool("ack.Success()", PCall("github.com/cosmos/ibc-go/v10/modules/core/exported.Acknowledgement.Success", -1, PCall("github.com/cosmos/ibc-go/v10/modules/core/05-port/types.IBCModule.OnRecvPacket", -1, nil)))
		toPool := AEq("receiver == rewards pool", PCall("sdk.AccAddress.String", -1, nil), PCall("pk.Keeper.GetConsumerRewardsPoolAddressStr", -1, nil))
		set := c.one(f, false, "pk.Keeper.SetConsumerRewardsAllocationByDenom")
		get := c.one(f, false, "pk.Keeper.GetConsumerRewardsAllocationByDenom")
		if set != nil && get != nil {
			c.GuardedBy(set, fk(f, "credit-guard"), ackOK, toPool)
			c.Check(sameVal(arg(set, 1), arg(get, 1)) && sameVal(arg(set, 2), arg(get, 2)), fk(f, "read-modify-write-same-key"), set, "the allocation read and the allocation written belong to the same (consumer, denom)")
			chainOK := AErrNil("GetConsumerChainId(consumer) ok", PCall("pk.Keeper.GetConsumerChainId", 1, nil, nil, PIs(arg(set, 1))))
			c.GuardedBy(set, fk(f, "credit-known-consumer"), chainOK)
			// stored value = loaded allocation with Rewards := Rewards.Add(NewDecCoinFromCoin({denom, amount}))
			okAdd := false
			for _, in := range allInstrs(f) {
				st, ok := in.(*ssa.Store)
				if !ok {
					continue
				}
				fa, ok := st.Addr.(*ssa.FieldAddr)
				if !ok || fieldName(fa.X.Type(), fa.Field) != "Rewards" {
					continue
				}
				add, _ := callOf(st.Val)
				if add != nil && isCallTo(add, "sdk.DecCoins.Add") {
					if _, n, isF := fieldLoadOf(callRecv(add)); isF && n == "Rewards" {
						okAdd = true
					}
				}
			}
			c.Check(okAdd, fk(f, "adds-to-existing-credit"), set, "the new credit is the existing allocation's Rewards plus the received coin")
			// amount and denom come from the packet data
			coinOK := false
			for _, cl := range Calls(f, false, "math.NewIntFromString") {
				if _, n, ok := fieldLoadOf(arg(cl, 0)); ok && n == "Amount" {
					coinOK = true
				}
			}
			c.Check(coinOK, fk(f, "amount-from-packet"), set, "the credited amount is parsed from the packet data's Amount")
			getOK := AErrNil("GetConsumerRewardsAllocationByDenom ok", PIs(extractOf(get, 1)))
			c.GuardedBy(set, fk(f, "credit-after-successful-read"), getOK)
		}
		for _, r := range Returns(f) {
			okAck := true
			for _, v := range roots(r.Results[0]) {
				if cl, _ := callOf(v); cl == nil || !isCallTo(cl, "github.com/cosmos/ibc-go/v10/modules/core/05-port/types.IBCModule.OnRecvPacket") {
					okAck = false
				}
			}
			c.Check(okAck, fk(f, "returns-transfer-ack"), r, "the middleware returns the transfer application's acknowledgement unchanged")
		}
	}

	// ---- R5 ------------------------------------------------------------------------------------
	c.Rule("R5", "provider allocation loop: per (consumer, denom) on a fresh cache; only registered or per-consumer allow-listed denoms; the remaining allocation is deleted (if zero) or written back before the commit (isolation details in C19.R1)", 5)
	if f := c.Fn("pk.Keeper.AllocateTokens"); f != nil {
		id := PElemOf(PCall("pk.Keeper.GetAllConsumersWithIBCClients", -1, nil))
		al := c.one(f, false, "pk.Keeper.AllocateConsumerRewards")
		get := c.one(f, false, "pk.Keeper.GetConsumerRewardsAllocationByDenom")
		set := c.one(f, false, "pk.Keeper.SetConsumerRewardsAllocationByDenom")
		del := c.one(f, false, "pk.Keeper.DeleteConsumerRewardsAllocationByDenom")
		if al != nil && get != nil && set != nil && del != nil {
			denomOK := false
			for _, r := range elementSource(arg(get, 2)) {
				if ap, _ := callOf(r); ap != nil && isCallTo(ap, "builtin.append") {
					denomOK = PCall("pk.Keeper.GetAllConsumerRewardDenoms", -1, nil)(ap.Call.Args[0]) && PCall("pk.Keeper.GetAllowlistedRewardDenoms", 0, nil, nil, id)(ap.Call.Args[1])
				}
			}
			c.Check(denomOK, fk(f, "allowed-denoms-only"), get, "denoms iterated = registered reward denoms ++ this consumer's allow-listed denoms")
			c.Check(id(arg(get, 1)) && id(arg(al, 1)) && id(arg(set, 1)) && id(arg(del, 1)), fk(f, "same-consumer"), al, "read, allocate and write back the same consumer")
			cached := PCall("sdk.Context.CacheContext", 0, PParam("ctx"))
			for _, op := range []ssa.CallInstruction{get, al, set, del} {
				c.Check(cached(arg(op, 0)), fk(f, "on-cached-context", shortName(calleeName(op))), op, "runs on the per-(consumer, denom) cached context, so a later failure discards the payout; found "+describe(arg(op, 0)))
			}
			c.Check(sameVal(arg(get, 2), arg(set, 2)) && sameVal(arg(get, 2), arg(del, 2)), fk(f, "same-denom"), set, "read and write back the same denom")
			c.Check(PIs(extractOf(get, 0))(arg(al, 2)), fk(f, "allocates-stored-credit"), al, "the amount allocated is the stored credit")
			c.Check(PIs(extractOf(al, 0))(arg(set, 3)), fk(f, "writes-back-remainder"), set, "what is written back is AllocateConsumerRewards' remaining allocation")
			zero := ABool("remaining is zero", PCall("sdk.DecCoins.IsZero", -1, PField(PIs(extractOf(al, 0)), "Rewards")))
			c.GuardedBy(del, fk(f, "delete-only-if-zero"), zero)
			c.UnreachableWhen(set, fk(f, "write-back-if-nonzero"), T(zero))
		}
	}

	// ---- R6 ------------------------------------------------------------------------------------
	// the allow list consulted above is the one the owner last submitted (an empty list clears it)
	if f := c.Fn("pk.msgServer.UpdateConsumer"); f != nil {
		if up := c.one(f, false, "pk.Keeper.UpdateAllowlistedRewardDenoms"); up != nil {
			c.RequestProcessed(f, "AllowlistedRewardDenoms", fk(f, "allowlist-request-is-processed"), up)
			c.Check(PField(PParam("msg"), "ConsumerId")(arg(up, 1)) && PField(PField(PParam("msg"), "AllowlistedRewardDenoms"), "Denoms")(arg(up, 2)), fk(f, "allowlist-request-content"), up,
				"replaces the list of msg.ConsumerId with msg.AllowlistedRewardDenoms.Denoms; found "+describe(arg(up, 1))+", "+describe(arg(up, 2)))
		}
	}
	if f := c.Fn("pk.Keeper.UpdateAllowlistedRewardDenoms"); f != nil {
		del := c.one(f, false, "pk.Keeper.DeleteAllowlistedRewardDenoms")
		set := c.one(f, false, "pk.Keeper.SetAllowlistedRewardDenoms")
		if del != nil && set != nil {
			c.Check(PParam("consumerId")(arg(del, 1)) && PParam("consumerId")(arg(set, 1)) && PParam("rewardDenoms")(arg(set, 2)), fk(f, "replaces"), set, "deletes the old list and stores the new one for the same consumer")
			for _, r := range successReturns(f) {
				c.Check(mustPassBefore(r, set), fk(f, "always-stores"), r, "a success return passes SetAllowlistedRewardDenoms")
			}
		}
	}

	c.Rule("R6", "AllocateConsumerRewards: the coins moved to the distribution account are exactly the coins handed to AllocateTokensToConsumerValidators; the community part is funded from the rewards pool account; the returned remainder is the truncation changes", 5)
	if f := c.Fn("pk.Keeper.AllocateConsumerRewards"); f != nil {
		send := c.one(f, false, "ccv.BankKeeper.SendCoinsFromModuleToModule")
		at := c.one(f, false, "pk.Keeper.AllocateTokensToConsumerValidators")
		if send != nil && at != nil {
			c.Check(PParam("consumerId")(arg(at, 1)), fk(f, "pays-own-consumer"), at, "validators of the consumerId parameter are paid")
			nd, _ := callOf(arg(at, 2))
			okSame := nd != nil && isCallTo(nd, "sdk.NewDecCoinsFromCoins") && sameVal(arg(nd, 0), arg(send, 3))
			c.Check(okSame, fk(f, "moved-equals-distributed"), at, "the amount distributed to validators is the amount moved to the distribution account; found "+describe(arg(at, 2)))
			pool, _ := c.StringConst("pt.ConsumerRewardsPool")
			src, _ := constString(arg(send, 1))
			c.Check(src == pool, fk(f, "from-rewards-pool"), send, "validators' rewards leave the consumer rewards pool")
			c.Check(mustPassBefore(at, send), fk(f, "move-before-distribute"), at, "coins are moved before they are distributed")
			sendOK := AErrNil("bank transfer ok", PIs(send.Value()))
			c.GuardedBy(at, fk(f, "distribute-only-if-moved"), sendOK)
			vr := PCall("sdk.DecCoins.TruncateDecimal", 0, PCall("sdk.DecCoins.MulDecTruncate", -1, PField(PParam("alloc"), "Rewards"), nil))
			c.Check(vr(arg(send, 3)), fk(f, "validators-share"), send, "validators' share = truncate(credit x (1 - community tax)); found "+describe(arg(send, 3)))
		}
		for _, cl := range Calls(f, false, "ccv.DistributionKeeper.FundCommunityPool") {
			acct := PCall("sdk.ModuleAccountI.GetAddress;github.com/cosmos/cosmos-sdk/x/auth/types.ModuleAccountI.GetAddress", -1, nil)
			_ = acct
			ok := false
			if g, _ := callOf(arg(cl, 2)); g != nil {
				if ma, _ := callOf(callRecv(g)); ma != nil && isCallTo(ma, "ccv.AccountKeeper.GetModuleAccount") {
					pool, _ := c.StringConst("pt.ConsumerRewardsPool")
					s, _ := constString(arg(ma, 1))
					ok = s == pool
				}
			}
			c.Check(ok, fk(f, "community-from-rewards-pool"), cl, "the community pool is funded from the consumer rewards pool account")
		}
	}

	// ---- R7 ------------------------------------------------------------------------------------
	c.Rule("R7", "eligibility sibling rule: AllocateTokensToConsumerValidators and ComputeConsumerTotalVotingPower iterate GetConsumerValSet of the same consumer and skip with the same IsEligibleForConsumerRewards(JoinHeight) test; the fraction is Power/total of that same total", 7)
	var elig [2]bool
	for i, fn := range []string{"pk.Keeper.AllocateTokensToConsumerValidators", "pk.Keeper.ComputeConsumerTotalVotingPower"} {
		f := c.Fn(fn)
		if f == nil {
			continue
		}
		val := PElemOf(PCall("pk.Keeper.GetConsumerValSet", 0, nil, nil, PParam("consumerId")))
		e := ABool("IsEligibleForConsumerRewards(v.JoinHeight)", PCall("pk.Keeper.IsEligibleForConsumerRewards", -1, nil, nil, PField(val, "JoinHeight")))
		n := len(ifsTesting(f, e.Fn))
		elig[i] = n == 1
		c.Check(n == 1, fk(f, "eligibility-test"), f, "iterates the consumer's stored validator set and tests IsEligibleForConsumerRewards(JoinHeight) of each")
		if i == 0 {
			if pay := c.one(f, false, "ccv.DistributionKeeper.AllocateTokensToValidator"); pay != nil {
				c.GuardedBy(pay, fk(f, "pay-only-eligible"), e)
				total := PCall("math.LegacyNewDec", -1, nil, PCall("pk.Keeper.ComputeConsumerTotalVotingPower", -1, nil, nil, PParam("consumerId")))
				frac := PCall("math.LegacyDec.QuoTruncate", -1, PCall("math.LegacyNewDec", -1, nil, PField(val, "Power")), total)
				c.Check(PCall("sdk.DecCoins.MulDecTruncate", -1, PParam("tokens"), frac)(arg(pay, 2)), fk(f, "proportional-share"), pay, "share = tokens x (Power / total eligible power) truncated; found "+describe(arg(pay, 2)))
				c.Check(PCall("ccv.StakingKeeper.GetValidatorByConsAddr", 0, nil, nil, PField(val, "ProviderConsAddr"))(derefAllocStore(arg(pay, 1))), fk(f, "pays-that-validator"), pay, "the validator paid is the one looked up from the entry's provider address")
			}
		} else {
			// total sums Power of eligible entries
			okSum := false
			for _, in := range allInstrs(f) {
				if b, ok := in.(*ssa.BinOp); ok && b.Op == token.ADD && PField(val, "Power")(b.Y) {
					g, _ := Guarded(in, e.Fn)
					okSum = g
				}
			}
			c.Check(okSum, fk(f, "sums-eligible-power"), f, "the total adds v.Power only for eligible entries")
		}
	}
	c.Check(elig[0] && elig[1], "rewards/eligibility-siblings-agree", nil, "numerator and denominator use the same eligibility filter")
	if f := c.Fn("pk.Keeper.IsEligibleForConsumerRewards"); f != nil {
		for _, r := range Returns(f) {
			b, ok := r.Results[0].(*ssa.BinOp)
			okR := ok && b.Op == token.GEQ
			if okR {
				sub, isS := b.X.(*ssa.BinOp)
				okR = isS && sub.Op == token.SUB && PCall("sdk.Context.BlockHeight", -1, nil)(sub.X) && PParam("consumerValidatorHeight")(sub.Y)
				mul, isM := b.Y.(*ssa.BinOp)
				okR = okR && isM && mul.Op == token.MUL && PCall("pk.Keeper.GetNumberOfEpochsToStartReceivingRewards", -1, nil)(mul.X) && PCall("pk.Keeper.GetBlocksPerEpoch", -1, nil)(mul.Y)
			}
			c.Check(okR, fk(f, "epochs-test"), r, "eligible iff BlockHeight - joinHeight >= epochsToStart x blocksPerEpoch; found "+describe(r.Results[0]))
		}
	}

	// ---- R8 ------------------------------------------------------------------------------------
	// the eligibility clock travels with the record: between CreateConsumerValidator (which sets
	// JoinHeight) and the stored set, power shaping may only copy whole records and change Power
	c.OnlyBuiltBy("pt.ConsensusValidator", []string{"pk.Keeper.CreateConsumerValidator", "pk.Keeper.CreateProviderConsensusValidator"}, []string{"Power"}, 2)

	c.Rule("R8", "per-consumer commission: the rate applied is GetConsumerCommissionRate(same consumer, same validator) when set; HandleSetConsumerCommissionRate writes only for an active consumer and not below staking's minimum", 4)
	if f := c.Fn("pk.Keeper.AllocateTokensToConsumerValidators"); f != nil {
		val := PElemOf(PCall("pk.Keeper.GetConsumerValSet", 0, nil, nil, PParam("consumerId")))
		if g := c.one(f, false, "pk.Keeper.GetConsumerCommissionRate"); g != nil {
			c.Check(PParam("consumerId")(arg(g, 1)) && PCall("pt.NewProviderConsAddress", -1, nil, PField(val, "ProviderConsAddr"))(arg(g, 2)), fk(f, "commission-of-same-pair"), g, "commission looked up for (this consumer, this validator)")
		}
	}
	if f := c.Fn("pk.Keeper.HandleSetConsumerCommissionRate"); f != nil {
		active := ABool("IsConsumerActive(consumerId)", PCall("pk.Keeper.IsConsumerActive", -1, nil, nil, PParam("consumerId")))
		low := ABool("rate < min rate", PCall("math.LegacyDec.LT", -1, PParam("commissionRate"), PCall("ccv.StakingKeeper.MinCommissionRate", 0, nil)))
		if s := c.one(f, false, "pk.Keeper.SetConsumerCommissionRate"); s != nil {
			c.GuardedBy(s, fk(f, "write-guard"), active, low.Not())
			c.Check(PParam("consumerId")(arg(s, 1)) && PParam("providerAddr")(arg(s, 2)) && PParam("commissionRate")(arg(s, 3)), fk(f, "writes-request"), s, "stores the requested rate for (consumerId, providerAddr)")
		}
	}
}

// balanceOf: for x = truncate(NewDecCoinsFromCoins(bal...).MulDec(f)) return bal.
func balanceOf(v ssa.Value) ssa.Value {
	t, _ := callOf(v)
	if t == nil {
		return nil
	}
	m, _ := callOf(callRecv(t))
	if m == nil {
		return nil
	}
	n, _ := callOf(callRecv(m))
	if n == nil {
		return nil
	}
	return arg(n, 0)
}

// structLitFieldsPtr: v = &T{...} (new + field stores)
func structLitFieldsPtr(v ssa.Value) map[string]ssa.Value {
	al, ok := v.(*ssa.Alloc)
	if !ok {
		return nil
	}
	out := map[string]ssa.Value{}
	for _, r := range *al.Referrers() {
		if fa, ok := r.(*ssa.FieldAddr); ok {
			for _, rr := range *fa.Referrers() {
				if st, ok := rr.(*ssa.Store); ok && st.Addr == fa {
					out[fieldName(fa.X.Type(), fa.Field)] = st.Val
				}
			}
		}
	}
	return out
}

// derefAllocStore: v is a load of a local struct cell initialised by one store (plus later field
// tweaks, e.g. val.Commission… = cr): return the initially stored value.
func derefAllocStore(v ssa.Value) ssa.Value {
	u, ok := v.(*ssa.UnOp)
	if !ok {
		return v
	}
	al, ok := u.X.(*ssa.Alloc)
	if !ok {
		return v
	}
	for _, r := range *al.Referrers() {
		if st, ok := r.(*ssa.Store); ok && st.Addr == ssa.Value(al) {
			return st.Val
		}
	}
	return v
}
