package main

// Shared program-representation helpers: function lookup by object, callee naming, call-site
// discovery, value stripping / structural equality, and CFG reachability at instruction granularity.

import (
	"fmt"
	"go/constant"
	"go/token"
	"go/types"
	"sort"
	"strings"

	"golang.org/x/tools/go/ssa"
)

// short package aliases used in rule specs
var pkgAlias = map[string]string{
	"pk":          modPath + "/x/ccv/provider/keeper",
	"pt":          modPath + "/x/ccv/provider/types",
	"provider":    modPath + "/x/ccv/provider",
	"ck":          modPath + "/x/ccv/consumer/keeper",
	"ct":          modPath + "/x/ccv/consumer/types",
	"consumer":    modPath + "/x/ccv/consumer",
	"ccv":         modPath + "/x/ccv/types",
	"nvstaking":   modPath + "/x/ccv/no_valupdates_staking",
	"nvgenutil":   modPath + "/x/ccv/no_valupdates_genutil",
	"demodist":    modPath + "/x/ccv/democracy/distribution",
	"papp":        modPath + "/app/provider",
	"capp":        modPath + "/app/consumer",
	"dapp":        modPath + "/app/consumer-democracy",
	"sdk":         "github.com/cosmos/cosmos-sdk/types",
	"math":        "cosmossdk.io/math",
	"time":        "time",
	"staking":     "github.com/cosmos/cosmos-sdk/x/staking/types",
	"store":       "cosmossdk.io/store/types",
	"storepfx":    "cosmossdk.io/store/prefix",
	"errorsmod":   "cosmossdk.io/errors",
	"chantypes":   "github.com/cosmos/ibc-go/v10/modules/core/04-channel/types",
	"clienttypes": "github.com/cosmos/ibc-go/v10/modules/core/02-client/types",
	"tmtypes":     "github.com/cometbft/cometbft/types",
	"ibctm":       "github.com/cosmos/ibc-go/v10/modules/light-clients/07-tendermint",
}

// q expands "pk.Keeper.Foo" into the canonical name "<pkgpath>.Keeper.Foo".
func q(spec string) string {
	i := strings.Index(spec, ".")
	if i < 0 {
		if full, ok := pkgAlias[spec]; ok {
			return full
		}
		return spec
	}
	if full, ok := pkgAlias[spec[:i]]; ok {
		return full + spec[i:]
	}
	return spec
}

// funcName returns the canonical name "pkgpath.Recv.Name" / "pkgpath.Name" of a types.Func
// (pointer receivers and type arguments stripped).
func funcName(f *types.Func) string {
	if f == nil {
		return ""
	}
	sig, _ := f.Type().(*types.Signature)
	pkg := ""
	if f.Pkg() != nil {
		pkg = f.Pkg().Path()
	}
	if sig != nil && sig.Recv() != nil {
		t := sig.Recv().Type()
		if p, ok := t.(*types.Pointer); ok {
			t = p.Elem()
		}
		switch n := t.(type) {
		case *types.Named:
			if n.Obj().Pkg() != nil {
				pkg = n.Obj().Pkg().Path()
			}
			return pkg + "." + n.Obj().Name() + "." + f.Name()
		case *types.Alias:
			return pkg + "." + n.Obj().Name() + "." + f.Name()
		default:
			// interface method declared in an unnamed interface
			return pkg + ".?." + f.Name()
		}
	}
	return pkg + "." + f.Name()
}

// ssaFuncName: canonical name for an SSA function (methods, functions, bound/thunk wrappers
// resolve to the underlying declared function; anonymous functions are "parent$N").
func ssaFuncName(fn *ssa.Function) string {
	if fn == nil {
		return ""
	}
	if fn.Parent() != nil {
		return ssaFuncName(fn.Parent()) + "$" + strings.TrimPrefix(fn.Name(), fn.Parent().Name()+"$")
	}
	if o, ok := fn.Object().(*types.Func); ok && o != nil {
		if fn.Origin() != nil && fn.Origin() != fn {
			if oo, ok := fn.Origin().Object().(*types.Func); ok {
				return funcName(oo)
			}
		}
		return funcName(o)
	}
	return fn.String()
}

// calleeName returns the canonical name of a call's target: the static callee, the interface
// method for invoke-mode calls, or "" for calls through function values that are not closures.
func calleeName(c ssa.CallInstruction) string {
	cc := c.Common()
	if cc.IsInvoke() {
		n := funcName(cc.Method)
		// KVStore embeds BasicKVStore: name the store operations uniformly
		if strings.HasPrefix(n, "cosmossdk.io/store/types.BasicKVStore.") {
			n = "cosmossdk.io/store/types.KVStore." + strings.TrimPrefix(n, "cosmossdk.io/store/types.BasicKVStore.")
		}
		return n
	}
	if f := cc.StaticCallee(); f != nil {
		return ssaFuncName(f)
	}
	if b, ok := cc.Value.(*ssa.Builtin); ok {
		return "builtin." + b.Name()
	}
	return ""
}

// callArgs returns the arguments excluding the receiver, for both call modes.
func callArgs(c ssa.CallInstruction) []ssa.Value {
	cc := c.Common()
	if cc.IsInvoke() {
		return cc.Args
	}
	if f := cc.StaticCallee(); f != nil && f.Signature.Recv() != nil && len(cc.Args) > 0 {
		return cc.Args[1:]
	}
	return cc.Args
}

// callRecv returns the receiver value (nil for plain functions).
func callRecv(c ssa.CallInstruction) ssa.Value {
	cc := c.Common()
	if cc.IsInvoke() {
		return cc.Value
	}
	if f := cc.StaticCallee(); f != nil && f.Signature.Recv() != nil && len(cc.Args) > 0 {
		return cc.Args[0]
	}
	return nil
}

func isCallTo(c ssa.CallInstruction, specs ...string) bool {
	n := calleeName(c)
	if n == "" {
		return false
	}
	for _, s := range specs {
		if n == q(s) {
			return true
		}
	}
	return false
}

// Func finds a function/method of the repository by canonical spec.
func (p *Prog) Func(spec string) *ssa.Function {
	full := q(spec)
	if p.funcIndex == nil {
		p.funcIndex = map[string]*ssa.Function{}
		for f := range p.AllFuncs {
			if f.Blocks == nil || f.Synthetic != "" {
				continue
			}
			if f.Origin() != nil && f.Origin() != f {
				continue
			}
			p.funcIndex[ssaFuncName(f)] = f
		}
	}
	return p.funcIndex[full]
}

// Pos formats a position relative to the repository root.
func (p *Prog) Pos(pos token.Pos) string {
	if !pos.IsValid() {
		return "?"
	}
	po := p.Fset.Position(pos)
	f := strings.TrimPrefix(po.Filename, p.Dir+"/")
	return fmt.Sprintf("%s:%d", f, po.Line)
}

func (p *Prog) InstrPos(i ssa.Instruction) string {
	pos := i.Pos()
	if !pos.IsValid() {
		if v, ok := i.(ssa.Value); ok {
			pos = valuePos(v)
		}
	}
	if !pos.IsValid() && i.Parent() != nil {
		return p.Pos(i.Parent().Pos()) + "(" + i.Parent().Name() + ")"
	}
	return p.Pos(pos)
}

func valuePos(v ssa.Value) token.Pos {
	if v.Pos().IsValid() {
		return v.Pos()
	}
	if i, ok := v.(ssa.Instruction); ok {
		for _, op := range i.Operands(nil) {
			if *op != nil && (*op).Pos().IsValid() {
				return (*op).Pos()
			}
		}
	}
	return token.NoPos
}

// Calls lists the call instructions (call, defer, go) in fn (not descending into closures unless
// deep) whose callee matches one of specs; sorted by position in block order.
func Calls(fn *ssa.Function, deep bool, specs ...string) []ssa.CallInstruction {
	var out []ssa.CallInstruction
	var walk func(f *ssa.Function)
	walk = func(f *ssa.Function) {
		for _, b := range f.Blocks {
			for _, in := range b.Instrs {
				if c, ok := in.(ssa.CallInstruction); ok && isCallTo(c, specs...) {
					out = append(out, c)
				}
			}
		}
		if deep {
			for _, a := range f.AnonFuncs {
				walk(a)
			}
		}
	}
	walk(fn)
	return out
}

// AllCalls lists every call instruction in fn (optionally in its closures too).
func AllCalls(fn *ssa.Function, deep bool) []ssa.CallInstruction {
	var out []ssa.CallInstruction
	var walk func(f *ssa.Function)
	walk = func(f *ssa.Function) {
		for _, b := range f.Blocks {
			for _, in := range b.Instrs {
				if c, ok := in.(ssa.CallInstruction); ok {
					out = append(out, c)
				}
			}
		}
		if deep {
			for _, a := range f.AnonFuncs {
				walk(a)
			}
		}
	}
	walk(fn)
	return out
}

// ModuleFuncs returns every source-level function (incl. closures) of repository packages whose
// import path has one of the given prefixes (aliases allowed), sorted by name.
func (p *Prog) ModuleFuncs(prefixes ...string) []*ssa.Function {
	var out []*ssa.Function
	for f := range p.AllFuncs {
		if f.Blocks == nil || f.Synthetic != "" {
			continue
		}
		if f.Origin() != nil && f.Origin() != f {
			continue
		}
		pk := fnPkgPath(f)
		ok := false
		for _, pre := range prefixes {
			full := pre
			if a, okA := pkgAlias[pre]; okA {
				full = a
			}
			if pk == full || strings.HasPrefix(pk, full+"/") {
				ok = true
			}
		}
		if ok {
			out = append(out, f)
		}
	}
	sort.Slice(out, func(i, j int) bool {
		a, b := ssaFuncName(out[i]), ssaFuncName(out[j])
		if a != b {
			return a < b
		}
		return out[i].Pos() < out[j].Pos()
	})
	return out
}

func fnPkgPath(f *ssa.Function) string {
	for f.Parent() != nil {
		f = f.Parent()
	}
	if f.Pkg != nil {
		return f.Pkg.Pkg.Path()
	}
	if o := f.Object(); o != nil && o.Pkg() != nil {
		return o.Pkg().Path()
	}
	return ""
}

func (p *Prog) fileOf(f *ssa.Function) string {
	for f.Parent() != nil {
		f = f.Parent()
	}
	return strings.TrimPrefix(p.Fset.Position(f.Pos()).Filename, p.Dir+"/")
}

// ---------------------------------------------------------------------------------------------
// value helpers

// strip removes representation-only wrappers: ChangeType, Convert between types with the same
// underlying basic kind, MakeInterface, ChangeInterface, and loads of single-store local allocs.
func strip(v ssa.Value) ssa.Value {
	for i := 0; i < 20; i++ {
		switch x := v.(type) {
		case *ssa.ChangeType:
			v = x.X
		case *ssa.MakeInterface:
			v = x.X
		case *ssa.ChangeInterface:
			v = x.X
		case *ssa.Convert:
			v = x.X
		case *ssa.UnOp:
			if x.Op == token.MUL {
				if a, ok := x.X.(*ssa.Alloc); ok {
					if s := singleStore(a); s != nil {
						v = s
						continue
					}
				}
			}
			return v
		case *ssa.Alloc:
			// the address of a local that is written exactly once stands for the stored value
			// (spilled parameters, value receivers of pointer-receiver methods)
			if s := singleStore(x); s != nil {
				v = s
				continue
			}
			return v
		default:
			return v
		}
	}
	return v
}

// singleStore: if the alloc is written by exactly one Store and its address does not escape to a
// callee that could write through it (non-receiver argument, or an Unmarshal-like method), return
// the stored value.
func singleStore(a *ssa.Alloc) ssa.Value {
	// a spilled parameter keeps its identity even when its address is handed to a callee
	{
		var pv ssa.Value
		k := 0
		for _, r := range *a.Referrers() {
			if st, ok := r.(*ssa.Store); ok && st.Addr == ssa.Value(a) {
				k++
				pv = st.Val
			}
		}
		if _, isParam := pv.(*ssa.Parameter); isParam && k == 1 {
			return pv
		}
	}
	var val ssa.Value
	n := 0
	for _, r := range *a.Referrers() {
		switch x := r.(type) {
		case *ssa.Store:
			if x.Addr == a {
				n++
				val = x.Val
			} else {
				return nil // address stored somewhere
			}
		case ssa.CallInstruction:
			for _, arg := range callArgs(x) {
				if arg == a {
					return nil
				}
			}
			nm := calleeName(x)
			if strings.Contains(nm, "Unmarshal") || strings.Contains(nm, ".Reset") {
				return nil
			}
		case *ssa.MakeClosure:
			// captured by a closure: fine as long as the closure only reads it
			if fn, ok := x.Fn.(*ssa.Function); ok {
				for i, b := range x.Bindings {
					if b != ssa.Value(a) || i >= len(fn.FreeVars) {
						continue
					}
					if freeVarWritten(fn.FreeVars[i]) {
						return nil
					}
				}
			} else {
				return nil
			}
		case *ssa.MakeInterface, *ssa.Phi:
			return nil
		case *ssa.FieldAddr:
			// a later write through a field changes the stored struct
			for _, rr := range *x.Referrers() {
				if st, ok := rr.(*ssa.Store); ok && st.Addr == x {
					return nil
				}
			}
		}
	}
	if n == 1 {
		return val
	}
	return nil
}

// freeVarWritten: the closure (or a nested closure) stores through the captured variable.
func freeVarWritten(fv *ssa.FreeVar) bool {
	for _, r := range *fv.Referrers() {
		switch x := r.(type) {
		case *ssa.Store:
			if x.Addr == ssa.Value(fv) {
				return true
			}
		case *ssa.MakeClosure:
			if fn, ok := x.Fn.(*ssa.Function); ok {
				for i, b := range x.Bindings {
					if b == ssa.Value(fv) && i < len(fn.FreeVars) && freeVarWritten(fn.FreeVars[i]) {
						return true
					}
				}
			}
		case *ssa.FieldAddr:
			for _, rr := range *x.Referrers() {
				if st, ok := rr.(*ssa.Store); ok && st.Addr == x {
					return true
				}
			}
		}
	}
	return false
}

// callOf: if v (after strip) is a call result or an extract of one, return the call and the tuple
// index (-1 for single results).
func callOf(v ssa.Value) (*ssa.Call, int) {
	v = strip(v)
	switch x := v.(type) {
	case *ssa.Call:
		return x, -1
	case *ssa.Extract:
		if c, ok := x.Tuple.(*ssa.Call); ok {
			return c, x.Index
		}
	}
	return nil, 0
}

// roots expands phis (and strips wrappers): the set of non-phi values that may flow into v.
func roots(v ssa.Value) []ssa.Value {
	seen := map[ssa.Value]bool{}
	var out []ssa.Value
	var walk func(v ssa.Value, d int)
	walk = func(v ssa.Value, d int) {
		v = strip(v)
		if seen[v] || d > 30 {
			return
		}
		seen[v] = true
		if p, ok := v.(*ssa.Phi); ok {
			for _, e := range p.Edges {
				walk(e, d+1)
			}
			return
		}
		if a, ok := v.(*ssa.Alloc); ok {
			if s := singleStore(a); s != nil {
				walk(s, d+1)
				return
			}
		}
		// load of a local cell written several times (loop accumulators captured by closures):
		// flow-insensitively, any stored value may be read
		if u, ok := v.(*ssa.UnOp); ok && u.Op == token.MUL {
			if a, ok := u.X.(*ssa.Alloc); ok && !a.Heap || ok && cellOnlyStoredLocally(a) {
				n := 0
				for _, r := range *a.Referrers() {
					if st, ok := r.(*ssa.Store); ok && st.Addr == ssa.Value(a) {
						n++
						walk(st.Val, d+1)
					}
				}
				if n > 0 {
					return
				}
			}
		}
		out = append(out, v)
	}
	walk(v, 0)
	return out
}

// cellOnlyStoredLocally: a heap cell (captured variable) whose capturing closures never write it.
func cellOnlyStoredLocally(a *ssa.Alloc) bool {
	for _, r := range *a.Referrers() {
		switch x := r.(type) {
		case *ssa.MakeClosure:
			fn, ok := x.Fn.(*ssa.Function)
			if !ok {
				return false
			}
			for i, b := range x.Bindings {
				if b == ssa.Value(a) && i < len(fn.FreeVars) && freeVarWritten(fn.FreeVars[i]) {
					return false
				}
			}
		case ssa.CallInstruction:
			for _, arg := range callArgs(x) {
				if arg == ssa.Value(a) {
					return false
				}
			}
		}
	}
	return true
}

// vkey: a structural key for side-effect-free expressions (parameters, constants, field loads,
// conversions, pure accessor calls); for everything else the SSA name (identity).
func vkey(v ssa.Value) string {
	return vkeyD(v, 0)
}

// pure accessor callees whose results are structurally comparable when the arguments are
var pureCallees = map[string]bool{}

func vkeyD(v ssa.Value, d int) string {
	v = strip(v)
	if d > 8 {
		return v.Name()
	}
	switch x := v.(type) {
	case *ssa.Alloc:
		if s := singleStore(x); s != nil {
			return vkeyD(s, d+1)
		}
	case *ssa.Parameter:
		return "param:" + x.Name()
	case *ssa.FreeVar:
		return "free:" + x.Name()
	case *ssa.Const:
		if x.Value == nil {
			return "const:nil"
		}
		return "const:" + x.Value.ExactString()
	case *ssa.Global:
		return "global:" + x.String()
	case *ssa.UnOp:
		if x.Op == token.MUL {
			switch a := x.X.(type) {
			case *ssa.FieldAddr:
				return vkeyD(a.X, d+1) + "." + fieldName(a.X.Type(), a.Field)
			case *ssa.Global:
				return "global:" + a.String()
			case *ssa.FreeVar:
				return "free*:" + a.Name()
			}
		}
	case *ssa.Field:
		return vkeyD(x.X, d+1) + "." + fieldName(x.X.Type(), x.Field)
	case *ssa.FieldAddr:
		return "&" + vkeyD(x.X, d+1) + "." + fieldName(x.X.Type(), x.Field)
	case *ssa.Call:
		n := calleeName(x)
		if pureCallees[n] {
			s := n + "("
			if r := callRecv(x); r != nil {
				s += vkeyD(r, d+1) + ";"
			}
			for _, a := range callArgs(x) {
				s += vkeyD(a, d+1) + ","
			}
			return s + ")"
		}
	}
	return v.Name() + "@" + fmt.Sprint(v.Pos())
}

func fieldName(t types.Type, idx int) string {
	if p, ok := t.Underlying().(*types.Pointer); ok {
		t = p.Elem()
	}
	if s, ok := t.Underlying().(*types.Struct); ok && idx < s.NumFields() {
		return s.Field(idx).Name()
	}
	return fmt.Sprint(idx)
}

func sameVal(a, b ssa.Value) bool {
	if a == nil || b == nil {
		return false
	}
	if strip(a) == strip(b) {
		return true
	}
	// two loads of the same local cell
	if ua, ok := a.(*ssa.UnOp); ok && ua.Op == token.MUL {
		if ub, ok := b.(*ssa.UnOp); ok && ub.Op == token.MUL && ua.X == ub.X {
			if _, isAlloc := ua.X.(*ssa.Alloc); isAlloc {
				return true
			}
		}
	}
	return vkey(a) == vkey(b)
}

func isNilConst(v ssa.Value) bool {
	c, ok := v.(*ssa.Const)
	return ok && c.Value == nil
}

func constInt(v ssa.Value) (int64, bool) {
	c, ok := strip(v).(*ssa.Const)
	if !ok || c.Value == nil || c.Value.Kind() != constant.Int {
		return 0, false
	}
	return c.Int64(), true
}

func constBool(v ssa.Value) (bool, bool) {
	c, ok := v.(*ssa.Const)
	if !ok || c.Value == nil || c.Value.Kind() != constant.Bool {
		return false, false
	}
	return constant.BoolVal(c.Value), true
}

func constString(v ssa.Value) (string, bool) {
	c, ok := strip(v).(*ssa.Const)
	if !ok || c.Value == nil || c.Value.Kind() != constant.String {
		return "", false
	}
	return constant.StringVal(c.Value), true
}

func isErrorType(t types.Type) bool {
	n, ok := t.(*types.Named)
	return ok && n.Obj().Pkg() == nil && n.Obj().Name() == "error"
}

// fieldLoadOf peels one field selection: v is a load of field `name` (x.f, p.f through a pointer,
// or the address &x.f used as the base of a nested selection); returns the base value/address.
func fieldLoadOf(v ssa.Value) (base ssa.Value, name string, ok bool) {
	if fa, isAddr := v.(*ssa.FieldAddr); isAddr {
		return fa.X, fieldName(fa.X.Type(), fa.Field), true
	}
	v = strip(v)
	switch x := v.(type) {
	case *ssa.UnOp:
		if x.Op == token.MUL {
			if a, ok := x.X.(*ssa.FieldAddr); ok {
				return a.X, fieldName(a.X.Type(), a.Field), true
			}
		}
	case *ssa.Field:
		return x.X, fieldName(x.X.Type(), x.Field), true
	case *ssa.FieldAddr:
		return x.X, fieldName(x.X.Type(), x.Field), true
	}
	return nil, "", false
}

// ---------------------------------------------------------------------------------------------
// CFG reachability at instruction granularity

type point struct {
	b *ssa.BasicBlock
	i int // index into b.Instrs
}

func pointOf(in ssa.Instruction) point {
	b := in.Block()
	for i, x := range b.Instrs {
		if x == in {
			return point{b, i}
		}
	}
	panic("instruction not in its block")
}

type edge struct{ from, to *ssa.BasicBlock }

// Reach describes a reachability query inside one function.
type Reach struct {
	Fn        *ssa.Function
	CutEdges  map[edge]bool            // edges that may not be taken
	CutInstrs map[ssa.Instruction]bool // instructions that may not be executed (path stops before them)
}

func NewReach(fn *ssa.Function) *Reach {
	return &Reach{Fn: fn, CutEdges: map[edge]bool{}, CutInstrs: map[ssa.Instruction]bool{}}
}

// From computes the set of instructions reachable when execution starts *at* start (start itself
// is executed first; if it is cut nothing is reachable). start==nil means function entry.
func (r *Reach) From(start ssa.Instruction) map[ssa.Instruction]bool {
	out := map[ssa.Instruction]bool{}
	if len(r.Fn.Blocks) == 0 {
		return out
	}
	var p point
	if start == nil {
		p = point{r.Fn.Blocks[0], 0}
	} else {
		p = pointOf(start)
	}
	visited := map[*ssa.BasicBlock]bool{}
	var work []*ssa.BasicBlock
	scan := func(b *ssa.BasicBlock, from int) {
		for i := from; i < len(b.Instrs); i++ {
			in := b.Instrs[i]
			if r.CutInstrs[in] {
				return
			}
			out[in] = true
		}
		for _, s := range b.Succs {
			if r.CutEdges[edge{b, s}] {
				continue
			}
			if !visited[s] {
				visited[s] = true
				work = append(work, s)
			}
		}
	}
	scan(p.b, p.i)
	for len(work) > 0 {
		b := work[len(work)-1]
		work = work[:len(work)-1]
		scan(b, 0)
	}
	return out
}

// After: instructions reachable strictly after `start` has executed.
func (r *Reach) After(start ssa.Instruction) map[ssa.Instruction]bool {
	p := pointOf(start)
	out := map[ssa.Instruction]bool{}
	visited := map[*ssa.BasicBlock]bool{}
	var work []*ssa.BasicBlock
	scan := func(b *ssa.BasicBlock, from int) {
		for i := from; i < len(b.Instrs); i++ {
			in := b.Instrs[i]
			if r.CutInstrs[in] {
				return
			}
			out[in] = true
		}
		for _, s := range b.Succs {
			if r.CutEdges[edge{b, s}] {
				continue
			}
			if !visited[s] {
				visited[s] = true
				work = append(work, s)
			}
		}
	}
	scan(p.b, p.i+1)
	for len(work) > 0 {
		b := work[len(work)-1]
		work = work[:len(work)-1]
		scan(b, 0)
	}
	return out
}

// Returns lists the Return instructions (and panics if wantPanics) of fn.
func Returns(fn *ssa.Function) []*ssa.Return {
	var out []*ssa.Return
	for _, b := range fn.Blocks {
		if len(b.Instrs) == 0 {
			continue
		}
		if r, ok := b.Instrs[len(b.Instrs)-1].(*ssa.Return); ok {
			out = append(out, r)
		}
	}
	return out
}

func Panics(fn *ssa.Function) []*ssa.Panic {
	var out []*ssa.Panic
	for _, b := range fn.Blocks {
		if len(b.Instrs) == 0 {
			continue
		}
		if r, ok := b.Instrs[len(b.Instrs)-1].(*ssa.Panic); ok {
			out = append(out, r)
		}
	}
	return out
}

// ---------------------------------------------------------------------------------------------
// condition normalisation

// Leaf is a normalised branch condition: the tested value and whether the branch's true edge
// corresponds to the leaf being false (Neg).
type Leaf struct {
	V   ssa.Value
	Neg bool
}

// normCond strips boolean negations.
func normCond(c ssa.Value) Leaf {
	neg := false
	for {
		if u, ok := c.(*ssa.UnOp); ok && u.Op == token.NOT {
			neg = !neg
			c = u.X
			continue
		}
		break
	}
	return Leaf{c, neg}
}

// Test describes what a leaf tests, relative to a rule's atom: Match and, if matched, whether the
// atom holds when the leaf value is true.
type AtomFn func(leaf ssa.Value) (match bool, holdsWhenTrue bool)

// IfsTesting lists the If instructions of fn whose condition tests the atom, with the successor
// index (0 = then, 1 = else) on which the atom HOLDS.
type guardIf struct {
	If      *ssa.If
	HoldIdx int
}

func ifsTesting(fn *ssa.Function, atom AtomFn) []guardIf {
	var out []guardIf
	for _, b := range fn.Blocks {
		if len(b.Instrs) == 0 {
			continue
		}
		iff, ok := b.Instrs[len(b.Instrs)-1].(*ssa.If)
		if !ok {
			continue
		}
		l := normCond(iff.Cond)
		m, hold := atom(l.V)
		if !m {
			continue
		}
		if l.Neg {
			hold = !hold
		}
		idx := 0
		if !hold {
			idx = 1
		}
		out = append(out, guardIf{iff, idx})
	}
	return out
}

// Guarded reports whether every path from the function entry to site passes through an edge on
// which the atom holds (i.e. site is unreachable once all "atom holds" edges are removed).
// n is the number of branch instructions testing the atom (0 ⇒ not guarded).
func Guarded(site ssa.Instruction, atom AtomFn) (ok bool, n int) {
	fn := site.Parent()
	gs := ifsTesting(fn, atom)
	if len(gs) == 0 {
		return false, 0
	}
	r := NewReach(fn)
	for _, g := range gs {
		b := g.If.Block()
		r.CutEdges[edge{b, b.Succs[g.HoldIdx]}] = true
		// if both successors are the same block the edge cannot be distinguished: treat as unguarded
		if b.Succs[0] == b.Succs[1] {
			return false, len(gs)
		}
	}
	reach := r.From(nil)
	return !reach[site], len(gs)
}

// Excluded reports whether site is unreachable through any edge on which the atom holds
// (site lies only on paths where the atom is false or untested): removing all "atom fails"
// edges... precisely: there is no path entry→site that takes an edge where the atom holds.
func NeverAfterHolds(site ssa.Instruction, atom AtomFn) (ok bool, n int) {
	fn := site.Parent()
	gs := ifsTesting(fn, atom)
	if len(gs) == 0 {
		return false, 0
	}
	// site must be unreachable from the target of every hold edge
	for _, g := range gs {
		b := g.If.Block()
		tgt := b.Succs[g.HoldIdx]
		r := NewReach(fn)
		// a path that re-evaluates the test (next loop iteration) starts afresh
		for _, g2 := range gs {
			r.CutInstrs[g2.If] = true
		}
		if len(tgt.Instrs) == 0 {
			continue
		}
		if r.From(tgt.Instrs[0])[site] {
			return false, len(gs)
		}
	}
	return true, len(gs)
}

// ---------------------------------------------------------------------------------------------
// standard atoms

// errNilAtom: leaf is `e == nil` / `e != nil` where e is the error result of a call accepted by
// pred; the atom ("call succeeded") holds when e == nil.
func errNilAtom(pred func(c *ssa.Call) bool) AtomFn {
	return func(leaf ssa.Value) (bool, bool) {
		b, ok := leaf.(*ssa.BinOp)
		if !ok || (b.Op != token.EQL && b.Op != token.NEQ) {
			return false, false
		}
		var e ssa.Value
		if isNilConst(b.Y) {
			e = b.X
		} else if isNilConst(b.X) {
			e = b.Y
		} else {
			return false, false
		}
		if !isErrorType(e.Type()) {
			return false, false
		}
		for _, r := range roots(e) {
			c, _ := callOf(r)
			if c == nil || !pred(c) {
				return false, false
			}
		}
		return true, b.Op == token.EQL
	}
}

// boolCallAtom: leaf is the bool result (single or tuple element) of a call accepted by pred;
// atom holds when the result is true. idx == -2 accepts any result index.
func boolCallAtom(pred func(c *ssa.Call) bool) AtomFn {
	return func(leaf ssa.Value) (bool, bool) {
		c, _ := callOf(leaf)
		if c == nil || !pred(c) {
			return false, false
		}
		if b, ok := leaf.Type().Underlying().(*types.Basic); !ok || b.Kind() != types.Bool {
			return false, false
		}
		return true, true
	}
}

func callTo(specs ...string) func(c *ssa.Call) bool {
	return func(c *ssa.Call) bool { return isCallTo(c, specs...) }
}

// cmpAtom: leaf is a comparison; f receives operator and operands and decides.
func cmpAtom(f func(op token.Token, x, y ssa.Value) (bool, bool)) AtomFn {
	return func(leaf ssa.Value) (bool, bool) {
		b, ok := leaf.(*ssa.BinOp)
		if !ok {
			return false, false
		}
		switch b.Op {
		case token.EQL, token.NEQ, token.LSS, token.LEQ, token.GTR, token.GEQ:
			return f(b.Op, b.X, b.Y)
		}
		return false, false
	}
}

// eqAtom: leaf compares (==/!=) two values accepted by px and py (either order); the atom
// ("equal") holds when they are equal.
func eqAtom(px, py func(v ssa.Value) bool) AtomFn {
	return cmpAtom(func(op token.Token, x, y ssa.Value) (bool, bool) {
		if op != token.EQL && op != token.NEQ {
			return false, false
		}
		if (px(x) && py(y)) || (px(y) && py(x)) {
			return true, op == token.EQL
		}
		return false, false
	})
}

func notAtom(a AtomFn) AtomFn {
	return func(leaf ssa.Value) (bool, bool) {
		m, h := a(leaf)
		return m, !h
	}
}

// valueIsCall returns a predicate: all roots of v are results (index idx, or any if idx==-2) of
// calls to one of specs.
func valueIsCall(idx int, specs ...string) func(v ssa.Value) bool {
	return func(v ssa.Value) bool {
		rs := roots(v)
		if len(rs) == 0 {
			return false
		}
		for _, r := range rs {
			c, i := callOf(r)
			if c == nil || !isCallTo(c, specs...) {
				return false
			}
			if idx != -2 && i != idx {
				return false
			}
		}
		return true
	}
}

func valueIsConstInt(n int64) func(v ssa.Value) bool {
	return func(v ssa.Value) bool {
		k, ok := constInt(v)
		return ok && k == n
	}
}

func valueIsField(name string) func(v ssa.Value) bool {
	return func(v ssa.Value) bool {
		_, n, ok := fieldLoadOf(v)
		return ok && n == name
	}
}

func describe(v ssa.Value) string { return describeD(v, 0) }

func describeD(v ssa.Value, d int) string {
	if v == nil {
		return "<nil>"
	}
	if d > 4 {
		return "…"
	}
	v = strip(v)
	switch x := v.(type) {
	case *ssa.Call:
		return shortName(calleeName(x)) + "(…)"
	case *ssa.Extract:
		if c, ok := x.Tuple.(*ssa.Call); ok {
			return fmt.Sprintf("%s(…)#%d", shortName(calleeName(c)), x.Index)
		}
	case *ssa.Const:
		return x.String()
	case *ssa.Parameter:
		return "param " + x.Name()
	case *ssa.Phi:
		var s []string
		for _, r := range roots(x) {
			s = append(s, describeD(r, d+1))
		}
		sort.Strings(s)
		return "phi{" + strings.Join(s, ", ") + "}"
	case *ssa.BinOp:
		return "(" + describeD(x.X, d+1) + " " + x.Op.String() + " " + describeD(x.Y, d+1) + ")"
	}
	if _, n, ok := fieldLoadOf(v); ok {
		return "." + n
	}
	return v.String()
}

func shortName(n string) string {
	n = strings.TrimPrefix(n, modPath+"/")
	if i := strings.LastIndex(n, "/"); i >= 0 {
		n = n[i+1:]
	}
	return n
}
