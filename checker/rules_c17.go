package main

import (
	"fmt"
	"go/token"

	"golang.org/x/tools/go/ssa"
)

func init() {
	register(&propDef{
		ID: "C17",
		Explanation: "Decides the handshake acceptance conditions and who writes the bindings: the provider's OnChanOpenTry succeeds only for an ORDERED channel on its bound port with counterparty port 'consumer', the CCV version, and VerifyConsumerChain (one hop; the connection's client maps to a consumer whose recorded client is that client; no channel yet); OnChanOpenInit/Ack/CloseInit always fail on the provider; " +
			"OnChanOpenConfirm binds channel<->consumer through SetConsumerChain after the same lookups and a duplicate check; the consumer's OnChanOpenInit succeeds only without an existing provider channel, ORDERED, own port, version, counterparty port 'provider', and over its recorded provider client; OnChanOpenTry/Confirm always fail; " +
			"the consumer adopts the channel of the first VSC packet and panics on a packet from another channel; client bindings are written only at launch (fresh client, or connection's client not bound elsewhere) and channel bindings only by SetConsumerChain; both are removed only by DeleteConsumerChain.",
		NotDecided: []string{"IBC core's handshake and capability semantics", "uniqueness of client ids issued by the IBC client keeper"},
		Run:        runC17,
	})
}

// alwaysError: every return of fn returns a definitely non-nil error.
func alwaysError(c *Ctx, spec string) {
	f := c.Fn(spec)
	if f == nil {
		return
	}
	c.Check(len(successReturns(f)) == 0 && len(Returns(f)) > 0, fk(f, "always-rejects"), f, "every return carries a non-nil error")
}

func runC17(c *Ctx) {
	ordered, _ := c.ConstVal("chantypes.ORDERED")

	// ---- R1 ------------------------------------------------------------------------------------
	c.Rule("R1", "handshake acceptance: provider OnChanOpenTry nil only if ORDERED, bound port, counterparty port == ConsumerPortID, version == ccv.Version, VerifyConsumerChain ok; provider OnChanOpenInit/OnChanOpenAck/OnChanCloseInit always error; consumer OnChanOpenInit nil only if no provider channel, ORDERED, bound port, version, counterparty port == ProviderPortID, VerifyProviderChain ok; consumer OnChanOpenTry/OnChanOpenConfirm always error", 20)
	alwaysError(c, "provider.AppModule.OnChanOpenInit")
	alwaysError(c, "provider.AppModule.OnChanOpenAck")
	alwaysError(c, "provider.AppModule.OnChanCloseInit")
	alwaysError(c, "consumer.AppModule.OnChanOpenTry")
	alwaysError(c, "consumer.AppModule.OnChanOpenConfirm")
	strConst := func(spec string) Pat {
		return func(v ssa.Value) bool {
			want, ok := c.StringConst(spec)
			s, isS := constString(v)
			return ok && isS && s == want
		}
	}
	if f := c.Fn("provider.validateCCVChannelParams"); f != nil {
		isOrdered := AEq("order == ORDERED", PParam("order"), PConstInt(ordered))
		portOK := AEq("portID == bound port", PParam("portID"), PCall("pk.Keeper.GetPort", -1, nil))
		for _, r := range successReturns(f) {
			c.GuardedBy(r, fk(f, "valid-only-if"), isOrdered, portOK)
		}
	}
	if f := c.Fn("provider.AppModule.OnChanOpenTry"); f != nil {
		paramsOK := AErrNil("validateCCVChannelParams ok", PCall("provider.validateCCVChannelParams", -1, nil, nil, nil, PParam("order"), PParam("portID")))
		cpPort := AEq("counterparty.PortId == ConsumerPortID", PField(PParam("counterparty"), "PortId"), strConst("ccv.ConsumerPortID"))
		ver := AEq("counterpartyVersion == Version", PParam("counterpartyVersion"), strConst("ccv.Version"))
		verified := AErrNil("VerifyConsumerChain ok", PCall("pk.Keeper.VerifyConsumerChain", -1, nil, nil, PParam("channelID"), PParam("connectionHops")))
		rs := successReturns(f)
		c.Check(len(rs) >= 1, fk(f, "has-accepting-return"), f, "has an accepting return")
		for _, r := range rs {
			c.GuardedBy(r, fk(f, "accept-only-if"), paramsOK, cpPort, ver, verified)
		}
	}
	if f := c.Fn("consumer.validateCCVChannelParams"); f != nil {
		isOrdered := AEq("order == ORDERED", PParam("order"), PConstInt(ordered))
		portOK := AEq("portID == bound port", PParam("portID"), PCall("ck.Keeper.GetPort", -1, nil))
		ver := AEq("version == Version", PParam("version"), strConst("ccv.Version"))
		for _, r := range successReturns(f) {
			c.GuardedBy(r, fk(f, "valid-only-if"), isOrdered, portOK, ver)
		}
	}
	if f := c.Fn("consumer.AppModule.OnChanOpenInit"); f != nil {
		hasChan := ABool("provider channel already set", PCall("ck.Keeper.GetProviderChannel", 1, nil))
		paramsOK := AErrNil("validateCCVChannelParams ok", PCall("consumer.validateCCVChannelParams", -1, nil, nil, nil, PParam("order"), PParam("portID"), nil))
		cpPort := AEq("counterparty.PortId == ProviderPortID", PField(PParam("counterparty"), "PortId"), strConst("ccv.ProviderPortID"))
		verified := AErrNil("VerifyProviderChain ok", PCall("ck.Keeper.VerifyProviderChain", -1, nil, nil, PParam("connectionHops")))
		rs := successReturns(f)
		c.Check(len(rs) >= 1, fk(f, "has-accepting-return"), f, "has an accepting return")
		for _, r := range rs {
			c.GuardedBy(r, fk(f, "accept-only-if"), hasChan.Not(), paramsOK, cpPort, verified)
		}
	}
	if f := c.Fn("consumer.AppModule.OnChanOpenAck"); f != nil {
		hasChan := ABool("provider channel already set", PCall("ck.Keeper.GetProviderChannel", 1, nil))
		for _, r := range successReturns(f) {
			c.GuardedBy(r, fk(f, "accept-only-if"), hasChan.Not())
		}
	}

	// ---- R2 ------------------------------------------------------------------------------------
	c.Rule("R2", "VerifyConsumerChain: nil only if exactly one hop, the connection's client maps to a consumer (reverse index), that consumer's recorded client equals it, and the consumer has no channel yet; SetConsumerChain repeats the lookups and the duplicate check before writing", 10)
	oneHop := func(param Pat) Atom {
		return Atom{"len(connectionHops) == 1", cmpAtom(func(op token.Token, x, y ssa.Value) (bool, bool) {
			isLen := func(v ssa.Value) bool {
				cl, ok := strip(v).(*ssa.Call)
				return ok && isCallTo(cl, "builtin.len") && param(cl.Call.Args[0])
			}
			if (op == token.EQL || op == token.NEQ) && ((isLen(x) && PConstInt(1)(y)) || (isLen(y) && PConstInt(1)(x))) {
				return true, op == token.EQL
			}
			return false, false
		})}
	}
	if f := c.Fn("pk.Keeper.VerifyConsumerChain"); f != nil {
		hops := PParam("connectionHops")
		client := PCall("pk.Keeper.getUnderlyingClient", 0, nil, nil, PIndex(hops, 0))
		clientOK := AErrNil("underlying client found", PCall("pk.Keeper.getUnderlyingClient", 2, nil, nil, PIndex(hops, 0)))
		cons := PCall("pk.Keeper.GetClientIdToConsumerId", 0, nil, nil, client)
		consFound := ABool("client maps to a consumer", PCall("pk.Keeper.GetClientIdToConsumerId", 1, nil, nil, client))
		recFound := ABool("consumer has a recorded client", PCall("pk.Keeper.GetConsumerClientId", 1, nil, nil, cons))
		recEq := AEq("recorded client == connection's client", PCall("pk.Keeper.GetConsumerClientId", 0, nil, nil, cons), client)
		hasChan := ABool("consumer already has a channel", PCall("pk.Keeper.GetConsumerIdToChannelId", 1, nil, nil, cons))
		rs := successReturns(f)
		c.Check(len(rs) == 1, fk(f, "one-accepting-return"), f, "one accepting return")
		for _, r := range rs {
			c.GuardedBy(r, fk(f, "valid-only-if"), oneHop(hops), clientOK, consFound, recFound, recEq, hasChan.Not())
		}
	}
	if f := c.Fn("pk.Keeper.SetConsumerChain"); f != nil {
		ch := PCall("ccv.ChannelKeeper.GetChannel", 0, nil, nil, nil, PParam("channelID"))
		chFound := ABool("channel found", PCall("ccv.ChannelKeeper.GetChannel", 1, nil, nil, nil, PParam("channelID")))
		hops := PField(ch, "ConnectionHops")
		client := PCall("pk.Keeper.getUnderlyingClient", 0, nil, nil, PIndex(hops, 0))
		clientOK := AErrNil("underlying client found", PCall("pk.Keeper.getUnderlyingClient", 2, nil, nil, PIndex(hops, 0)))
		cons := PCall("pk.Keeper.GetClientIdToConsumerId", 0, nil, nil, client)
		consFound := ABool("client maps to a consumer", PCall("pk.Keeper.GetClientIdToConsumerId", 1, nil, nil, client))
		hasChan := ABool("consumer already has a channel", PCall("pk.Keeper.GetConsumerIdToChannelId", 1, nil, nil, cons))
		for _, s := range Calls(f, false, "pk.Keeper.SetConsumerIdToChannelId", "pk.Keeper.SetChannelToConsumerId", "pk.Keeper.SetInitChainHeight") {
			c.GuardedBy(s, fk(f, "bind-only-if", shortName(calleeName(s))), chFound, oneHop(hops), clientOK, consFound, hasChan.Not())
		}
		if a := c.one(f, false, "pk.Keeper.SetConsumerIdToChannelId"); a != nil {
			c.Check(cons(arg(a, 1)) && PParam("channelID")(arg(a, 2)), fk(f, "binds-client-consumer"), a, "binds the channel to the consumer of the channel's underlying client")
			for _, r := range successReturns(f) {
				c.Check(mustPassBefore(r, a), fk(f, "success-binds"), r, "a nil return implies the binding was written")
			}
		}
	}
	if f := c.Fn("provider.AppModule.OnChanOpenConfirm"); f != nil {
		if s := c.one(f, false, "pk.Keeper.SetConsumerChain"); s != nil {
			c.Check(PParam("channelID")(arg(s, 1)), fk(f, "confirm-binds-channel"), s, "SetConsumerChain(ctx, channelID)")
			for _, r := range successReturns(f) {
				c.GuardedBy(r, fk(f, "confirm-only-if-bound"), AErrNil("SetConsumerChain ok", PIs(s.Value())))
			}
		}
	}
	if f := c.Fn("pk.Keeper.getUnderlyingClient"); f != nil {
		conn := PCall("ccv.ConnectionKeeper.GetConnection", 0, nil, nil, PParam("connectionID"))
		for _, r := range successReturns(f) {
			vs := roots(r.Results[0])
			ok := len(vs) == 1 && PField(conn, "ClientId")(vs[0])
			c.Check(ok, fk(f, "returns-connection-client"), r, "returns the client id of the named connection; found "+describe(r.Results[0]))
		}
	}

	// ---- R3 ------------------------------------------------------------------------------------
	c.Rule("R3", "VerifyProviderChain: nil only if exactly one hop, connection found, provider client recorded, and the connection's client equals it", 1)
	if f := c.Fn("ck.Keeper.VerifyProviderChain"); f != nil {
		hops := PParam("connectionHops")
		connFound := ABool("connection found", PCall("ccv.ConnectionKeeper.GetConnection", 1, nil, nil, PIndex(hops, 0)))
		provFound := ABool("provider client recorded", PCall("ck.Keeper.GetProviderClientID", 1, nil))
		eq := AEq("connection client == provider client", PCall("ck.Keeper.GetProviderClientID", 0, nil), PField(PCall("ccv.ConnectionKeeper.GetConnection", 0, nil, nil, PIndex(hops, 0)), "ClientId"))
		for _, r := range successReturns(f) {
			c.GuardedBy(r, fk(f, "valid-only-if"), oneHop(hops), connFound, provFound, eq)
		}
	}

	// ---- R4 ------------------------------------------------------------------------------------
	c.Rule("R4", "the consumer adopts the channel of the first VSC packet: SetProviderChannel(packet.DestinationChannel) only when none is recorded; a packet on a different channel panics before any effect; no other run-time writer", 5)
	c.OnlyCalledFrom("ck.Keeper.SetProviderChannel", "ck.Keeper.OnRecvVSCPacket")
	c.OnlyCalledFrom("ck.Keeper.SetProviderClientID") // genesis only
	if f := c.Fn("ck.Keeper.OnRecvVSCPacket"); f != nil {
		found := ABool("provider channel recorded", PCall("ck.Keeper.GetProviderChannel", 1, nil))
		same := AEq("recorded channel == packet.DestinationChannel", PCall("ck.Keeper.GetProviderChannel", 0, nil), PField(PParam("packet"), "DestinationChannel"))
		if s := c.one(f, false, "ck.Keeper.SetProviderChannel"); s != nil {
			c.UnreachableWhen(s, fk(f, "adopt-only-first"), T(found))
			c.Check(PField(PParam("packet"), "DestinationChannel")(arg(s, 1)), fk(f, "adopts-packet-channel"), s, "adopts packet.DestinationChannel")
		}
		for _, cl := range AllCalls(f, false) {
			if isStateEffect(cl) {
				c.UnreachableWhen(cl, fk(f, "foreign-channel-no-effect", shortName(calleeName(cl))), T(found), F(same))
			}
		}
		for _, r := range successReturns(f) {
			c.UnreachableWhen(r, fk(f, "foreign-channel-panics"), T(found), F(same))
		}
	}

	// ---- R5 ------------------------------------------------------------------------------------
	c.Rule("R5", "binding writers: SetConsumerClientId only from launch (CreateConsumerClient / MakeConsumerGenesis); channel indexes only from SetConsumerChain; all removed only by DeleteConsumerChain; genesis restores client and channel bindings in their roles (provider: consumer states; consumer: provider client/channel, none for a new chain)", 6)
	c.OnlyCalledFrom("pk.Keeper.SetConsumerClientId", "pk.Keeper.CreateConsumerClient", "pk.Keeper.MakeConsumerGenesis")
	c.OnlyCalledFrom("pk.Keeper.SetConsumerIdToChannelId", "pk.Keeper.SetConsumerChain")
	c.OnlyCalledFrom("pk.Keeper.SetChannelToConsumerId", "pk.Keeper.SetConsumerChain")
	c.OnlyCalledFrom("pk.Keeper.SetConsumerChain", "provider.AppModule.OnChanOpenConfirm")
	c.OnlyCalledFrom("pk.Keeper.DeleteConsumerClientId", "pk.Keeper.DeleteConsumerChain")
	c.OnlyCalledFrom("pk.Keeper.DeleteConsumerIdToChannelId", "pk.Keeper.DeleteConsumerChain")
	c.OnlyCalledFrom("pk.Keeper.DeleteChannelIdToConsumerId", "pk.Keeper.DeleteConsumerChain")
	c.OnlyCalledFrom("pk.Keeper.CreateConsumerClient", "pk.Keeper.LaunchConsumer")
	c.OnlyCalledFrom("pk.Keeper.MakeConsumerGenesis", "pk.Keeper.LaunchConsumer")

	// the client binding is released by every deletion, whether or not a channel was ever opened
	if f := c.Fn("pk.Keeper.DeleteConsumerChain"); f != nil {
		if del := c.one(f, false, "pk.Keeper.DeleteConsumerClientId"); del != nil {
			stp, _ := c.ConstVal("pt.CONSUMER_PHASE_STOPPED")
			stoppedA := AEq("phase == STOPPED", PCall("pk.Keeper.GetConsumerPhase", -1, nil, nil, PParam("consumerId")), PConstInt(stp))
			for _, r := range reachableReturns(f, T(stoppedA)) {
				c.Check(mustPassBefore(r, del) && PParam("consumerId")(arg(del, 1)), fk(f, "client-binding-always-released"), r, "every return of a STOPPED consumer's deletion passes DeleteConsumerClientId(consumerId)")
			}
		}
	}
	// genesis restores the bindings in their roles (all arguments are strings)
	if f := c.Fn("pk.Keeper.InitGenesis"); f != nil {
		cs := PElemOf(PField(PParam("genState"), "ConsumerStates"))
		c.ArgRoles(f, "pk.Keeper.SetConsumerClientId", "genesis-client-binding", "SetConsumerClientId(cs.ChainId, cs.ClientId)", PField(cs, "ChainId"), PField(cs, "ClientId"))
		c.ArgRoles(f, "pk.Keeper.SetChannelToConsumerId", "genesis-channel-binding", "SetChannelToConsumerId(cs.ChannelId, cs.ChainId)", PField(cs, "ChannelId"), PField(cs, "ChainId"))
		c.ArgRoles(f, "pk.Keeper.SetConsumerIdToChannelId", "genesis-channel-binding-reverse", "SetConsumerIdToChannelId(cs.ChainId, cs.ChannelId)", PField(cs, "ChainId"), PField(cs, "ChannelId"))
	}
	if f := c.Fn("ck.Keeper.InitGenesis"); f != nil {
		newChain := ABool("state.NewChain", PField(PParam("state"), "NewChain"))
		for _, set := range Calls(f, false, "ck.Keeper.SetProviderChannel") {
			c.Check(PField(PParam("state"), "ProviderChannelId")(arg(set, 1)), fk(f, "genesis-provider-channel"), set, "SetProviderChannel(state.ProviderChannelId); found "+describe(arg(set, 1)))
			c.UnreachableWhen(set, fk(f, "new-chain-has-no-channel"), T(newChain))
		}
		n := 0
		for _, set := range Calls(f, false, "ck.Keeper.SetProviderClientID") {
			n++
			a := arg(set, 1)
			ok := PField(PParam("state"), "ProviderClientId")(a) || PCall("ccv.ClientKeeper.CreateClient", 0, nil)(a) || PField(PCall("ccv.ConnectionKeeper.GetConnection", 0, nil, nil, PField(PParam("state"), "ConnectionId")), "ClientId")(a)
			if !ok {
				// the new-chain branch joins both sources in one variable
				ok = true
				for _, r := range roots(a) {
					ok = ok && (PCall("ccv.ClientKeeper.CreateClient", 0, nil)(r) || PField(PCall("ccv.ConnectionKeeper.GetConnection", 0, nil, nil, PField(PParam("state"), "ConnectionId")), "ClientId")(r))
				}
			}
			c.Check(ok, fk(f, "genesis-provider-client"), set, "provider client := the client created at genesis, the client of state.ConnectionId, or state.ProviderClientId on restart; found "+describe(a))
		}
		c.Check(n == 2, fk(f, "genesis-provider-client", "census"), f, fmt.Sprintf("%d provider-client writes at genesis (new chain, restart)", n))
	}

	// ---- R6 ------------------------------------------------------------------------------------
	c.Rule("R6", "injective client binding (no two consumers share a client): see C13.R5; here: both binding sites bind the id being launched, and MakeConsumerGenesis additionally requires the connection's client to carry the consumer's chain id", 3)
	checkBindingPairs(c, false)
	// launches of one block see each other's bindings: each launch is committed before the next starts
	checkCachedLoop(c, "pk.Keeper.BeginBlockLaunchConsumers", "pk.Keeper.LaunchConsumer")
	checkAccessorAgreement(c, "ck", "ProviderClientIDKey", "ProviderChannelIDKey", "PortKey")
	if f := c.Fn("pk.Keeper.MakeConsumerGenesis"); f != nil {
		if set := c.one(f, false, "pk.Keeper.SetConsumerClientId"); set != nil {
			chainEq := AEq("client chain id == consumer chain id", PField(PAny(), "ChainId"), PCall("pk.Keeper.GetConsumerChainId", 0, nil, nil, PParam("consumerId")))
			c.GuardedBy(set, fk(f, "reuse-only-same-chain-id"), chainEq)
		}
	}
}
