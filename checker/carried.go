package main

// Loop-carried state in per-consumer loops: a variable that survives from one consumer's iteration
// to the next and depends on a consumer's data may only be accumulated (for use after the loop);
// it must not be consumed inside the loop, otherwise one consumer's data takes part in another
// consumer's processing.

import (
	"fmt"
	"sort"

	"golang.org/x/tools/go/ssa"
)

type carriedFinding struct {
	Fn     *ssa.Function
	Header *ssa.BasicBlock
	Phi    *ssa.Phi
	Use    ssa.Instruction // nil if clean
	IdDesc string
}

// consumerIdValuesIn: values defined inside the loop that are passed to a parameter named
// consumerId of a module function or key constructor.
func consumerIdValuesIn(l *loopInfo) []ssa.Value {
	var out []ssa.Value
	seen := map[ssa.Value]bool{}
	for b := range l.Blocks {
		for _, in := range b.Instrs {
			cl, ok := in.(ssa.CallInstruction)
			if !ok {
				continue
			}
			callee := cl.Common().StaticCallee()
			if callee == nil {
				continue
			}
			params := callee.Params
			args := cl.Common().Args
			for i, p := range params {
				if i >= len(args) || p.Name() != "consumerId" {
					continue
				}
				v := strip(args[i])
				vi, isInstr := v.(ssa.Instruction)
				if !isInstr || !l.Blocks[vi.Block()] || seen[v] {
					continue
				}
				seen[v] = true
				out = append(out, v)
			}
		}
	}
	return out
}

// carriedState analyses every loop of fn that handles consumer ids drawn inside the loop.
func carriedState(fn *ssa.Function) []carriedFinding {
	var out []carriedFinding
	seenH := map[*ssa.BasicBlock]bool{}
	for _, b := range fn.Blocks {
		l := innermostLoop(b)
		if l == nil || seenH[l.Header] {
			continue
		}
		seenH[l.Header] = true
		ids := consumerIdValuesIn(l)
		if len(ids) == 0 {
			continue
		}
		for _, in := range l.Header.Instrs {
			phi, ok := in.(*ssa.Phi)
			if !ok {
				break
			}
			// back-edge values
			var back []ssa.Value
			for i, e := range phi.Edges {
				if l.Blocks[l.Header.Preds[i]] {
					back = append(back, e)
				}
			}
			dep := ""
			for _, bv := range back {
				for _, id := range ids {
					if dependsOnExcept(bv, id, phi) {
						dep = describe(id)
					}
				}
			}
			if dep == "" {
				continue // e.g. the range index, or a consumer-independent counter
			}
			// carried chain: phi and the values between phi and the back edge
			chain := map[ssa.Value]bool{phi: true}
			for _, bv := range back {
				collectChain(bv, phi, chain, 0)
			}
			var use ssa.Instruction
			for v := range chain {
				refs := v.Referrers()
				if refs == nil {
					continue
				}
				for _, r := range *refs {
					if !l.Blocks[r.Block()] {
						continue
					}
					if rv, isV := r.(ssa.Value); isV && chain[rv] {
						continue
					}
					// building the varargs of the accumulating append is part of the chain
					if use == nil || r.Pos() < use.Pos() {
						use = r
					}
				}
			}
			out = append(out, carriedFinding{fn, l.Header, phi, use, dep})
		}
	}
	sort.Slice(out, func(i, j int) bool { return out[i].Phi.Pos() < out[j].Phi.Pos() })
	return out
}

// dependsOnExcept: v depends on target without going through `stop`.
func dependsOnExcept(v, target ssa.Value, stop ssa.Value) bool {
	seen := map[ssa.Value]bool{stop: true}
	return dependsOn(v, target, 0, seen)
}

// collectChain: values on a def-use path from phi to v (v included), i.e. v's operands that
// themselves (transitively) use phi.
func collectChain(v ssa.Value, phi *ssa.Phi, chain map[ssa.Value]bool, depth int) bool {
	if v == ssa.Value(phi) {
		return true
	}
	if depth > 8 {
		return false
	}
	if chain[v] {
		return true
	}
	in, ok := v.(ssa.Instruction)
	if !ok {
		return false
	}
	uses := false
	for _, op := range in.Operands(nil) {
		if *op == nil {
			continue
		}
		if collectChain(*op, phi, chain, depth+1) {
			uses = true
		}
	}
	if uses {
		chain[v] = true
	}
	return uses
}

// checkCarriedState applies the rule to the functions given.
func checkCarriedState(c *Ctx, fns []*ssa.Function, floor int) {
	n := 0
	for _, f := range fns {
		all := append([]*ssa.Function{f}, allAnon(f)...)
		for _, fn := range all {
			idx := 0
			for _, cf := range carriedState(fn) {
				n++
				idx++
				key := fk(topFn(fn), "loop-carried", cf.Phi.Comment, fmt.Sprint(idx))
				if cf.Use == nil {
					c.Check(true, key, cf.Phi, fmt.Sprintf("%q accumulates data of the loop's consumer (%s) and is only read after the loop", cf.Phi.Comment, cf.IdDesc))
				} else {
					c.Check(false, key, cf.Use, fmt.Sprintf("%q carries data of one consumer (%s) into the next iteration and is consumed inside the per-consumer loop", cf.Phi.Comment, cf.IdDesc))
				}
			}
		}
	}
	c.Check(n >= floor, "loop-carried/census", nil, fmt.Sprintf("%d loop-carried variables depending on a consumer id analysed (at least %d confirmed by hand)", n, floor))
}
