package main

import (
	"fmt"
	"go/token"
	"sort"
	"strings"

	"golang.org/x/tools/go/ssa"
)

// ---- call index over module code (who-may-call rules) --------------------------------------

type callIndex struct {
	calls map[string][]ssa.CallInstruction // canonical callee -> call sites (static + invoke)
	refs  map[string][]ssa.Instruction     // canonical callee -> MakeClosure / function-value uses
}

func (p *Prog) index() *callIndex {
	if p.cidx != nil {
		return p.cidx
	}
	ci := &callIndex{calls: map[string][]ssa.CallInstruction{}, refs: map[string][]ssa.Instruction{}}
	for _, f := range p.ModuleFuncs(modPath) {
		for _, b := range f.Blocks {
			for _, in := range b.Instrs {
				if c, ok := in.(ssa.CallInstruction); ok {
					if n := calleeName(c); n != "" {
						ci.calls[n] = append(ci.calls[n], c)
					}
				}
				// function values: closures over bound methods, or plain function references
				for _, op := range in.Operands(nil) {
					if *op == nil {
						continue
					}
					switch v := (*op).(type) {
					case *ssa.Function:
						if c, ok := in.(ssa.CallInstruction); ok && c.Common().Value == v {
							continue // direct call, already indexed
						}
						if v.Parent() != nil {
							continue // anonymous closure defined here: analysed with its parent
						}
						ci.refs[ssaFuncName(v)] = append(ci.refs[ssaFuncName(v)], in)
					}
				}
			}
		}
	}
	p.cidx = ci
	return ci
}

// isOOB: out-of-band writers (genesis import and store migrations) that legitimately bypass the
// run-time guards: they run once, outside message/packet/block processing.
func isOOB(fn *ssa.Function) (bool, string) {
	for fn.Parent() != nil {
		fn = fn.Parent()
	}
	pk := fnPkgPath(fn)
	if strings.Contains(pk, "/migrations") {
		return true, "store migration"
	}
	n := ssaFuncName(fn)
	switch n {
	case q("pk.Keeper.InitGenesis"), q("pk.Keeper.InitGenesisValUpdates"), q("ck.Keeper.InitGenesis"):
		return true, "genesis import"
	}
	if strings.HasSuffix(pk, "/client/cli") || strings.HasSuffix(pk, "/simulation") {
		return true, "not part of the state machine"
	}
	return false, ""
}

// Callers returns the non-OOB call sites (and function-value references) of spec in module code.
func (c *Ctx) Callers(spec string) (sites []ssa.Instruction, oob []ssa.Instruction) {
	ci := c.P.index()
	full := q(spec)
	var all []ssa.Instruction
	for _, s := range ci.calls[full] {
		all = append(all, s)
	}
	all = append(all, ci.refs[full]...)
	for _, s := range all {
		if o, _ := isOOB(s.Parent()); o {
			oob = append(oob, s)
		} else {
			sites = append(sites, s)
		}
	}
	sortInstrs(c.P, sites)
	sortInstrs(c.P, oob)
	return
}

func sortInstrs(p *Prog, s []ssa.Instruction) {
	sort.SliceStable(s, func(i, j int) bool {
		a, b := s[i], s[j]
		fa, fb := ssaFuncName(a.Parent()), ssaFuncName(b.Parent())
		if fa != fb {
			return fa < fb
		}
		return a.Pos() < b.Pos()
	})
}

// OnlyCalledFrom: every non-OOB call site / reference of spec lies in one of the allowed functions
// (closures count as their enclosing function). One obligation per site, plus one per allowed
// caller that no longer calls it is NOT required (callers may disappear without harm).
func (c *Ctx) OnlyCalledFrom(spec string, allowed ...string) []ssa.Instruction {
	sites, oob := c.Callers(spec)
	if c.P.Func(spec) == nil && len(sites) == 0 && len(oob) == 0 {
		c.Undecided("anchor:"+spec, nil, "anchor-unresolved: "+q(spec)+" has no definition or call site")
		return nil
	}
	for _, s := range sites {
		top := s.Parent()
		for top.Parent() != nil {
			top = top.Parent()
		}
		n := ssaFuncName(top)
		ok := false
		for _, a := range allowed {
			if n == q(a) {
				ok = true
			}
		}
		c.Check(ok, fk(top, "calls", shortName(q(spec))), s,
			fmt.Sprintf("who-may-call: %s may only be used by %s (+%d out-of-band genesis/migration sites)", shortName(q(spec)), shortList(allowed), len(oob)))
	}
	return sites
}

func shortList(l []string) string {
	var s []string
	for _, x := range l {
		s = append(s, shortName(q(x)))
	}
	return "{" + strings.Join(s, ", ") + "}"
}

// ---- small value matchers -----------------------------------------------------------------

// isAddConst: v == x + k (either operand order) with x accepted by pred.
func isAddConst(v ssa.Value, k int64, pred func(ssa.Value) bool) bool {
	b, ok := strip(v).(*ssa.BinOp)
	if !ok || b.Op != token.ADD {
		return false
	}
	if n, ok := constInt(b.Y); ok && n == k && pred(b.X) {
		return true
	}
	if n, ok := constInt(b.X); ok && n == k && pred(b.Y) {
		return true
	}
	return false
}

// isCallResult: v (after strip) is the result (index idx; -1 single, -2 any) of a call to spec
// and argOK (optional) accepts the call.
func isCallResult(v ssa.Value, idx int, argOK func(c *ssa.Call) bool, specs ...string) bool {
	c, i := callOf(v)
	if c == nil || !isCallTo(c, specs...) {
		return false
	}
	if idx != -2 && i != idx {
		return false
	}
	return argOK == nil || argOK(c)
}

func isParam(v ssa.Value, name string) bool {
	p, ok := strip(v).(*ssa.Parameter)
	return ok && p.Name() == name
}

// isFieldOfParam: v is a (possibly nested) field load path.of a parameter, e.g. data.Validator.Address
func isFieldOfParam(v ssa.Value, param string, path ...string) bool {
	return PField(PParam(param), path...)(v)
}

// inLoop: the instruction can be executed again after having executed.
func inLoop(in ssa.Instruction) bool {
	return NewReach(in.Parent()).After(in)[in]
}

// mustPassBefore: every path from entry to `target` executes one of `via` first.
func mustPassBefore(target ssa.Instruction, via ...ssa.Instruction) bool {
	r := NewReach(target.Parent())
	for _, v := range via {
		r.CutInstrs[v] = true
	}
	return !r.From(nil)[target]
}

// successReturns: the returns of fn whose error result (last result, if it is an error) may be nil.
func successReturns(fn *ssa.Function) []*ssa.Return {
	var out []*ssa.Return
	res := fn.Signature.Results()
	errIdx := -1
	if res.Len() > 0 && isErrorType(res.At(res.Len()-1).Type()) {
		errIdx = res.Len() - 1
	}
	for _, r := range Returns(fn) {
		if errIdx < 0 {
			out = append(out, r)
			continue
		}
		if !definitelyError(r, r.Results[errIdx]) {
			out = append(out, r)
		}
	}
	return out
}

// definitelyError: the value returned at ret is certainly a non-nil error: a fresh error
// constructor, a global sentinel, or a value that the return is guarded on being != nil.
func definitelyError(ret *ssa.Return, v ssa.Value) bool {
	v = unspill(ret, v)
	for _, r := range roots(v) {
		if !definitelyErrorRoot(ret, r) {
			return false
		}
	}
	return true
}

var errorCtors = map[string]bool{
	"cosmossdk.io/errors.Wrap": true, "cosmossdk.io/errors.Wrapf": true,
	"fmt.Errorf": true, "errors.New": true,
	"cosmossdk.io/errors.Error.Wrap": true, "cosmossdk.io/errors.Error.Wrapf": true,
}

func definitelyErrorRoot(ret *ssa.Return, v ssa.Value) bool {
	if isNilConst(v) {
		return false
	}
	if c, _ := callOf(v); c != nil && errorCtors[calleeName(c)] {
		// errorsmod.Wrap(nil, …) returns nil, so the wrapped operand must itself be an error
		n := calleeName(c)
		if strings.HasPrefix(n, "cosmossdk.io/errors.Wrap") {
			args := callArgs(c)
			if len(args) > 0 {
				if _, isGlobalLoad := globalLoad(args[0]); isGlobalLoad {
					return true
				}
				return definitelyError(ret, args[0])
			}
		}
		return true
	}
	if _, ok := globalLoad(v); ok {
		return true
	}
	// guarded by v != nil
	ok, _ := Guarded(ret, func(leaf ssa.Value) (bool, bool) {
		b, isb := leaf.(*ssa.BinOp)
		if !isb || (b.Op != token.EQL && b.Op != token.NEQ) {
			return false, false
		}
		var e ssa.Value
		if isNilConst(b.Y) {
			e = b.X
		} else if isNilConst(b.X) {
			e = b.Y
		} else {
			return false, false
		}
		if strip(e) != strip(v) {
			// phi of the same call results? compare roots
			same := false
			for _, r := range roots(e) {
				if strip(r) == strip(v) {
					same = true
				}
			}
			if !same {
				return false, false
			}
			if len(roots(e)) != 1 {
				return false, false
			}
		}
		return true, b.Op == token.NEQ
	})
	return ok
}

func globalLoad(v ssa.Value) (*ssa.Global, bool) {
	if u, ok := strip(v).(*ssa.UnOp); ok && u.Op == token.MUL {
		if g, ok := u.X.(*ssa.Global); ok {
			return g, true
		}
	}
	return nil, false
}

// arg returns the i-th non-receiver argument of a call (nil if out of range).
func arg(c ssa.CallInstruction, i int) ssa.Value {
	a := callArgs(c)
	if i < 0 || i >= len(a) {
		return nil
	}
	return a[i]
}

// one returns the single call to spec in fn or records a failed obligation.
func (c *Ctx) one(fn *ssa.Function, deep bool, specs ...string) ssa.CallInstruction {
	if fn == nil {
		return nil
	}
	cs := Calls(fn, deep, specs...)
	if len(cs) != 1 {
		c.Undecided(fk(fn, "call", shortName(q(specs[0]))), fn, fmt.Sprintf("expected exactly one call to %s in %s, found %d", shortList(specs), shortName(ssaFuncName(fn)), len(cs)))
		return nil
	}
	return cs[0]
}

// appendedElems: the element values of append(s, e1, ..., en) (ok=false for append(s, t...)).
func appendedElems(cl *ssa.Call) ([]ssa.Value, bool) {
	if len(cl.Call.Args) != 2 {
		return nil, false
	}
	sl, ok := cl.Call.Args[1].(*ssa.Slice)
	if !ok {
		return nil, false
	}
	al, ok := sl.X.(*ssa.Alloc)
	if !ok || al.Comment != "varargs" {
		return nil, false
	}
	var out []ssa.Value
	for _, ref := range *al.Referrers() {
		ia, ok := ref.(*ssa.IndexAddr)
		if !ok {
			continue
		}
		for _, r2 := range *ia.Referrers() {
			if st, ok := r2.(*ssa.Store); ok && st.Addr == ia {
				out = append(out, st.Val)
			}
		}
	}
	return out, len(out) > 0
}

// isIteratorKey: cl is it.Key() where it is the result of a store iterator constructor.
func isIteratorKey(cl *ssa.Call) bool {
	cc := cl.Common()
	if !cc.IsInvoke() || cc.Method.Name() != "Key" {
		return false
	}
	for _, r := range roots(cc.Value) {
		ic, _ := callOf(r)
		if ic == nil {
			return false
		}
		n := calleeName(ic)
		if !(strings.HasSuffix(n, "KVStore.Iterator") || strings.HasSuffix(n, "KVStore.ReverseIterator") ||
			strings.HasSuffix(n, ".KVStorePrefixIterator") || strings.HasSuffix(n, ".KVStoreReversePrefixIterator")) {
			return false
		}
	}
	return len(roots(cc.Value)) > 0
}

// unspill: in a function with defers go/ssa stores the results into cells, runs the defers and
// returns loads of the cells; the value returned at this site is the one stored in the same block.
func unspill(ret *ssa.Return, v ssa.Value) ssa.Value {
	u, ok := v.(*ssa.UnOp)
	if !ok || u.Op != token.MUL {
		return v
	}
	al, ok := u.X.(*ssa.Alloc)
	if !ok {
		return v
	}
	b := ret.Block()
	for i := len(b.Instrs) - 1; i >= 0; i-- {
		if st, ok := b.Instrs[i].(*ssa.Store); ok && st.Addr == ssa.Value(al) {
			return st.Val
		}
	}
	return v
}

// RunsEveryBlock: every success return of the ABCI entry point passes the call of `step`.
func (c *Ctx) RunsEveryBlock(entry, step, key string) {
	f := c.Fn(entry)
	if f == nil {
		return
	}
	st := c.one(f, false, step)
	if st == nil {
		return
	}
	n := 0
	for _, r := range successReturns(f) {
		n++
		c.Check(mustPassBefore(r, st), fk(f, key), r, "every success return of "+shortName(q(entry))+" passes "+shortName(q(step)))
	}
	c.Check(n > 0, fk(f, key, "census"), f, "the entry point has a success return")
}
