package main

import (
	"golang.org/x/tools/go/ssa"
)

func init() {
	register(&propDef{
		ID: "C08",
		Explanation: "Decides the decision chain of downtime handling: on the provider the jail/slash/meter effects of OnRecvSlashPacket are reachable only for a validated, non-double-sign packet of a " +
			"launched consumer whose resolved validator is in that consumer's set while the meter is non-negative; double-sign packets reach no punishment and get the V1 result; " +
			"the not-launched and not-in-set branches acknowledge (AppendSlashAck) and return the handled result; HandleSlashPacket acknowledges under found/bonded/not-tombstoned/height-found but independently of the jailed test, " +
			"and punishes only when not jailed, with the consumer's downtime parameters; acknowledgements flow ConsumeSlashAcks -> VSC packet -> DeleteOutstandingDowntime; the consumer queues at most one outstanding downtime report per validator; " +
			"an error from OnRecvSlashPacket becomes an error acknowledgement.",
		NotDecided: []string{"that no other validator's state changes inside staking/slashing when the sink is called (external modules)", "interleavings across consumers (each path is per packet; cross-packet state is the slash-ack list and the meter, see C09)"},
		Run:        runC08,
	})
}

// atoms of OnRecvSlashPacket shared by C08/C09
type slashRecvAtoms struct {
	cid, res                                                Pat
	dataValid, packetValid, isDS, launched, inSet, meterNeg Atom
	handle, setMeter                                        ssa.CallInstruction
	acks                                                    []ssa.CallInstruction
	fn                                                      *ssa.Function
}

func slashRecv(c *Ctx) *slashRecvAtoms {
	f := c.Fn("pk.Keeper.OnRecvSlashPacket")
	if f == nil {
		return nil
	}
	a := &slashRecvAtoms{fn: f}
	launched, _ := c.ConstVal("pt.CONSUMER_PHASE_LAUNCHED")
	ds, _ := c.ConstVal("staking.Infraction_INFRACTION_DOUBLE_SIGN")
	a.cid = PCall("pk.Keeper.GetChannelIdToConsumerId", 0, nil, nil, PField(PParam("packet"), "DestinationChannel"))
	a.res = resolvedAddr(a.cid, PField(PParam("data"), "Validator", "Address"))
	a.dataValid = AErrNil("data.Validate() ok", PCall("ccv.SlashPacketData.Validate", -1, PParam("data")))
	a.packetValid = AErrNil("ValidateSlashPacket ok", PCall("pk.Keeper.ValidateSlashPacket", -1, nil, nil, a.cid, nil, PParam("data")))
	a.isDS = AEq("data.Infraction == DOUBLE_SIGN", PField(PParam("data"), "Infraction"), PConstInt(ds))
	a.launched = AEq("phase == LAUNCHED", PCall("pk.Keeper.GetConsumerPhase", -1, nil, nil, a.cid), PConstInt(launched))
	a.inSet = ABool("IsConsumerValidator(consumer, resolved addr)", PCall("pk.Keeper.IsConsumerValidator", -1, nil, nil, a.cid, a.res))
	a.meterNeg = ABool("GetSlashMeter().IsNegative()", PCall("math.Int.IsNegative", -1, PCall("pk.Keeper.GetSlashMeter", -1, nil)))
	a.handle = c.one(f, false, "pk.Keeper.HandleSlashPacket")
	a.setMeter = c.one(f, false, "pk.Keeper.SetSlashMeter")
	a.acks = Calls(f, false, "pk.Keeper.AppendSlashAck")
	return a
}

func instrs(cs []ssa.CallInstruction) []ssa.Instruction {
	var out []ssa.Instruction
	for _, c := range cs {
		out = append(out, c)
	}
	return out
}

func runC08(c *Ctx) {
	// ---- R1 -------------------------------------------------------------------------------------
	c.Rule("R1", "OnRecvSlashPacket decision chain: HandleSlashPacket and the meter write are reached only for validated, non-double-sign packets of a launched consumer whose resolved validator is in its set while the meter is non-negative; double-sign => no punishment, V1 result; not launched / not in set => AppendSlashAck + handled result", 20)
	if a := slashRecv(c); a != nil && a.handle != nil && a.setMeter != nil {
		f := a.fn
		for _, s := range []ssa.CallInstruction{a.handle, a.setMeter} {
			c.GuardedBy(s, fk(f, "guard", shortName(calleeName(s))), a.dataValid, a.packetValid, a.isDS.Not(), a.launched, a.inSet, a.meterNeg.Not())
		}
		c.Check(len(a.acks) >= 2, fk(f, "ack-sites"), f, "AppendSlashAck on the not-launched and the not-in-set branch")
		for _, s := range append([]ssa.CallInstruction{a.handle, a.setMeter}, a.acks...) {
			c.UnreachableWhen(s, fk(f, "double-sign-no-effect", shortName(calleeName(s))), T(a.isDS))
		}
		for _, r := range reachableReturns(f, T(a.dataValid), T(a.packetValid), T(a.isDS)) {
			if len(successReturnsOf(r)) == 0 {
				continue
			}
			c.Check(PGlobal("ccv.V1Result")(r.Results[0]), fk(f, "double-sign-result"), r, "double-sign packets are answered with V1Result; found "+describe(r.Results[0]))
		}
		ackOK := func(s ssa.CallInstruction) bool {
			return a.cid(arg(s, 1)) && PCall("pt.ConsumerConsAddress.String", -1, PCall("pt.NewConsumerConsAddress", -1, nil, PField(PParam("data"), "Validator", "Address")))(arg(s, 2))
		}
		for _, s := range a.acks {
			c.Check(ackOK(s), fk(f, "ack-args"), s, "AppendSlashAck(ctx, consumer of the channel, reported consumer address); found "+describe(arg(s, 2)))
		}
		base := []Lit{T(a.dataValid), T(a.packetValid), F(a.isDS)}
		for name, sc := range map[string][]Lit{
			"not-launched": append(append([]Lit{}, base...), F(a.launched)),
			"not-in-set":   append(append([]Lit{}, base...), T(a.launched), F(a.inSet)),
		} {
			rs := reachableReturns(f, sc...)
			n := 0
			for _, r := range rs {
				if len(successReturnsOf(r)) == 0 {
					continue
				}
				n++
				c.MustPassWhen(r, instrs(a.acks), fk(f, name, "acknowledged"), sc...)
				c.Check(PGlobal("ccv.SlashPacketHandledResult")(r.Results[0]), fk(f, name, "result"), r, "answered with SlashPacketHandledResult; found "+describe(r.Results[0]))
			}
			c.Check(n > 0, fk(f, name, "has-return"), f, "the "+name+" branch returns a result acknowledgement")
		}
		good := append(append([]Lit{}, base...), T(a.launched), T(a.inSet), F(a.meterNeg))
		for _, r := range reachableReturns(f, good...) {
			c.MustPassWhen(r, []ssa.Instruction{a.handle}, fk(f, "admitted-packet-is-handled"), good...)
			if len(successReturnsOf(r)) > 0 {
				c.Check(PGlobal("ccv.SlashPacketHandledResult")(r.Results[0]), fk(f, "handled-result"), r, "a handled packet is answered with SlashPacketHandledResult; found "+describe(r.Results[0]))
			}
		}
		for _, r := range reachableReturns(f, append(append([]Lit{}, base...), T(a.launched), T(a.inSet), T(a.meterNeg))...) {
			if len(successReturnsOf(r)) == 0 {
				continue
			}
			c.Check(PGlobal("ccv.SlashPacketBouncedResult")(r.Results[0]), fk(f, "bounce-result"), r, "a negative meter bounces the packet; found "+describe(r.Results[0]))
		}
	}

	// ---- R2 -------------------------------------------------------------------------------------
	c.Rule("R2", "HandleSlashPacket: acknowledge iff validator found, not unbonded, not tombstoned, height found (independently of jailed); slash+jail+JailUntil only when not jailed, with the consumer's Downtime parameters", 14)
	if f := c.Fn("pk.Keeper.HandleSlashPacket"); f != nil {
		dt, _ := c.ConstVal("staking.Infraction_INFRACTION_DOWNTIME")
		res := resolvedAddr(PParam("consumerId"), PField(PParam("data"), "Validator", "Address"))
		sdkAddr := PCall("pt.ProviderConsAddress.ToSdkConsAddr", -1, res)
		val := PCall("ccv.StakingKeeper.GetValidatorByConsAddr", 0, nil, nil, sdkAddr)
		valFound := AErrNil("validator found", PCall("ccv.StakingKeeper.GetValidatorByConsAddr", 1, nil, nil, sdkAddr))
		unbonded := ABool("validator.IsUnbonded()", PCall("staking.Validator.IsUnbonded", -1, val))
		tomb := ABool("IsTombstoned(addr)", PCall("ccv.SlashingKeeper.IsTombstoned", -1, nil, nil, sdkAddr))
		hFound := ABool("infraction height found", PCall("pk.Keeper.getMappedInfractionHeight", 1, nil, nil, PParam("consumerId"), PField(PParam("data"), "ValsetUpdateId")))
		jailed := ABool("validator.IsJailed()", PCall("staking.Validator.IsJailed", -1, val))
		params := PCall("pk.Keeper.GetInfractionParameters", 0, nil, nil, PParam("consumerId"))
		paramsOK := AErrNil("GetInfractionParameters ok", PCall("pk.Keeper.GetInfractionParameters", 1, nil, nil, PParam("consumerId")))
		if ack := c.one(f, false, "pk.Keeper.AppendSlashAck"); ack != nil {
			c.GuardedBy(ack, fk(f, "ack-guard"), valFound, unbonded.Not(), tomb.Not(), hFound)
			c.ReachableWhen(ack, fk(f, "ack-when-jailed"), T(valFound), F(unbonded), F(tomb), T(hFound), T(jailed))
			// the enumerated exceptions are the ONLY ways to leave without acknowledging
			for _, r := range Returns(f) {
				c.MustPassWhen(r, []ssa.Instruction{ack}, fk(f, "ack-unless-listed-exception"), T(valFound), F(unbonded), F(tomb), T(hFound))
			}
			c.Check(mustPassBefore(firstIfTesting(f, jailed), ack), fk(f, "ack-before-jailed-test"), ack, "the acknowledgement is recorded before (and independently of) the jailed test")
			ok := PParam("consumerId")(arg(ack, 1)) && PCall("pt.ConsumerConsAddress.String", -1, PCall("pt.NewConsumerConsAddress", -1, nil, PField(PParam("data"), "Validator", "Address")))(arg(ack, 2))
			c.Check(ok, fk(f, "ack-args"), ack, "AppendSlashAck(ctx, consumerId, reported consumer address)")
		}
		sl := c.one(f, false, "ccv.StakingKeeper.SlashWithInfractionReason")
		jl := c.one(f, false, "ccv.StakingKeeper.Jail")
		ju := c.one(f, false, "ccv.SlashingKeeper.JailUntil")
		for _, s := range []ssa.CallInstruction{sl, jl, ju} {
			if s == nil {
				continue
			}
			c.GuardedBy(s, fk(f, "punish-guard", shortName(calleeName(s))), valFound, unbonded.Not(), tomb.Not(), hFound, jailed.Not(), paramsOK)
		}
		if sl != nil && jl != nil && ju != nil {
			sc := []Lit{T(valFound), F(unbonded), F(tomb), T(hFound), F(jailed), T(paramsOK)}
			slashOK := AErrNil("slash ok", PIs(extractOf(sl, 1)))
			jailOK := AErrNil("jail ok", PIs(jl.Value()))
			for _, r := range Returns(f) {
				c.MustPassWhen(r, []ssa.Instruction{sl}, fk(f, "punish-unless-listed-exception", "slash"), sc...)
				c.MustPassWhen(r, []ssa.Instruction{jl}, fk(f, "punish-unless-listed-exception", "jail"), append(append([]Lit{}, sc...), T(slashOK))...)
				c.MustPassWhen(r, []ssa.Instruction{ju}, fk(f, "punish-unless-listed-exception", "jail-until"), append(append([]Lit{}, sc...), T(slashOK), T(jailOK))...)
			}
		}
		if sl != nil {
			c.Check(PField(params, "Downtime", "SlashFraction")(arg(sl, 4)), fk(f, "slash-fraction"), sl, "slash fraction = GetInfractionParameters(ctx, consumerId).Downtime.SlashFraction; found "+describe(arg(sl, 4)))
			c.Check(PConstInt(dt)(arg(sl, 5)), fk(f, "slash-reason"), sl, "infraction reason = DOWNTIME")
			c.Check(PField(PParam("data"), "Validator", "Power")(arg(sl, 3)), fk(f, "slash-power"), sl, "slashed power = data.Validator.Power")
		}
		if ju != nil {
			c.Check(PCall("time.Time.Add", -1, PCall("sdk.Context.BlockTime", -1, nil), PField(params, "Downtime", "JailDuration"))(arg(ju, 2)), fk(f, "jail-duration"), ju,
				"jail end = BlockTime + GetInfractionParameters(ctx, consumerId).Downtime.JailDuration; found "+describe(arg(ju, 2)))
		}
		if sl != nil && jl != nil && ju != nil {
			c.Check(mustPassBefore(jl, sl) && mustPassBefore(ju, jl), fk(f, "order"), jl, "slash, then jail, then JailUntil")
		}
	}

	// ---- R3 -------------------------------------------------------------------------------------
	c.Rule("R3", "acknowledgement round trip: QueueVSCPackets puts ConsumeSlashAcks(consumer) into that consumer's packet; ConsumeSlashAcks returns and deletes the list; the consumer clears the outstanding flag for every acknowledged address", 6)
	if f := c.Fn("pk.Keeper.QueueVSCPackets"); f != nil {
		for _, n := range Calls(f, true, "ccv.NewValidatorSetChangePacketData") {
			loopId := PElemOf(PCall("pk.Keeper.GetAllConsumersWithIBCClients", -1, nil))
			c.Check(PCall("pk.Keeper.ConsumeSlashAcks", -1, nil, nil, loopId)(arg(n, 2)), fk(f, "acks-in-packet"), n, "packet.SlashAcks = ConsumeSlashAcks(ctx, the loop's consumer id); found "+describe(arg(n, 2)))
			apps := Calls(f, true, "pk.Keeper.AppendPendingVSCPackets")
			for _, app := range apps {
				c.Check(loopId(arg(app, 1)), fk(f, "packet-to-same-consumer"), app, "the packet is queued for the same consumer id")
				c.Check(PIs(n.Value())(sliceLitElem(arg(app, 2))), fk(f, "queues-built-packet"), app, "the queued packet is the one built with the consumed acks")
			}
			// acks are removed from the store only when a packet carrying them is queued
			for _, cons := range Calls(f, true, "pk.Keeper.ConsumeSlashAcks") {
				rq := NewReach(f)
				for _, app := range apps {
					rq.CutInstrs[app] = true
				}
				after := rq.After(cons)
				lost := after[cons.(ssa.Instruction)]
				for _, r := range Returns(f) {
					if after[r] {
						lost = true
					}
				}
				c.Check(!lost, fk(f, "consumed-acks-are-sent"), cons, "every path from ConsumeSlashAcks passes AppendPendingVSCPackets before the next consumer or the return (acks are never consumed and dropped)")
			}
		}
	}
	if f := c.Fn("pk.Keeper.ConsumeSlashAcks"); f != nil {
		get := c.one(f, false, "pk.Keeper.GetSlashAcks")
		del := c.one(f, false, "store.KVStore.Delete")
		if get != nil && del != nil {
			c.Check(PParam("consumerId")(arg(get, 1)) && PCall("pt.SlashAcksKey", -1, nil, PParam("consumerId"))(arg(del, 0)), fk(f, "same-consumer"), del, "reads and deletes the acks of the consumerId parameter")
		}
	}
	if f := c.Fn("ck.Keeper.OnRecvVSCPacket"); f != nil {
		if d := c.one(f, false, "ck.Keeper.DeleteOutstandingDowntime"); d != nil {
			acks := PCall("ccv.ValidatorSetChangePacketData.GetSlashAcks", -1, PParam("newChanges"))
			ok := inLoop(d) && PCall("ccv.GetConsAddrFromBech32", 0, nil, PElemOf(acks))(arg(d, 1))
			c.Check(ok, fk(f, "clears-every-ack"), d, "DeleteOutstandingDowntime runs for every address of newChanges.GetSlashAcks(); found "+describe(arg(d, 1)))
		}
	}

	// export/import keeps pending acknowledgements and outstanding flags attached to their owners
	if f := c.Fn("pk.Keeper.InitGenesis"); f != nil {
		cs := PElemOf(PField(PParam("genState"), "ConsumerStates"))
		c.ArgRoles(f, "pk.Keeper.SetSlashAcks", "genesis-slash-acks", "SetSlashAcks(cs.ChainId, cs.SlashDowntimeAck)", PField(cs, "ChainId"), PField(cs, "SlashDowntimeAck"))
	}
	if f := c.Fn("ck.Keeper.InitGenesis"); f != nil {
		od := PElemOf(PField(PParam("state"), "OutstandingDowntimeSlashing"))
		c.ArgRoles(f, "ck.Keeper.SetOutstandingDowntime", "genesis-outstanding-flags", "SetOutstandingDowntime(address of each exported entry)", PCall("sdk.ConsAddressFromBech32", 0, nil, PField(od, "ValidatorConsensusAddress")))
	}

	// ---- R4 -------------------------------------------------------------------------------------
	c.Rule("R4", "consumer QueueSlashPacket: a downtime report for a validator with an outstanding report is dropped; otherwise the outstanding flag is set before the packet is queued", 5)
	if f := c.Fn("ck.Keeper.QueueSlashPacket"); f != nil {
		dt, _ := c.ConstVal("staking.Infraction_INFRACTION_DOWNTIME")
		addr := PField(PParam("validator"), "Address")
		downtime := AEq("infraction == DOWNTIME", PParam("infraction"), PConstInt(dt))
		outstanding := ABool("OutstandingDowntime(validator)", PCall("ck.Keeper.OutstandingDowntime", -1, nil, nil, addr))
		app := c.one(f, false, "ck.Keeper.AppendPendingPacket")
		set := c.one(f, false, "ck.Keeper.SetOutstandingDowntime")
		if app != nil && set != nil {
			c.UnreachableWhen(app, fk(f, "drop-duplicate"), T(downtime), T(outstanding))
			c.MustPassWhen(app, []ssa.Instruction{set}, fk(f, "flag-before-queue"), T(downtime))
			c.GuardedBy(set, fk(f, "flag-only-downtime"), downtime)
			c.Check(addr(arg(set, 1)), fk(f, "flag-address"), set, "the flag is set for the reported validator address; found "+describe(arg(set, 1)))
			c.ReachableWhen(app, fk(f, "queues-double-sign"), F(downtime))
		}
		if n := c.one(f, false, "ccv.NewSlashPacketData"); n != nil {
			c.Check(PParam("validator")(arg(n, 0)) && PParam("infraction")(arg(n, 2)), fk(f, "packet-content"), n, "the packet carries the reported validator and infraction")
		}
	}
	// the outstanding flag is cleared only by an acknowledgement, or for a validator that is new to the
	// consumer set (it cannot have a pending report); a power update of a present validator keeps it
	c.OnlyCalledFrom("ck.Keeper.DeleteOutstandingDowntime", "ck.Keeper.OnRecvVSCPacket", "ck.Keeper.ApplyCCValidatorChanges")
	if f := c.Fn("ck.Keeper.ApplyCCValidatorChanges"); f != nil {
		known := ABool("GetCCValidator(addr) found", PCall("ck.Keeper.GetCCValidator", 1, nil))
		for _, d := range Calls(f, false, "ck.Keeper.DeleteOutstandingDowntime") {
			c.UnreachableWhen(d, fk(f, "flag-kept-for-present-validator"), T(known))
		}
	}

	// ---- R5 -------------------------------------------------------------------------------------
	c.Rule("R6", "accessor agreement for the report/acknowledgement state (consumer outstanding-downtime flags, provider slash acks)", 6)
	checkAccessorAgreement(c, "ck", "OutstandingDowntimeKey")
	checkCollectors(c, "ck", "GetAllOutstandingDowntimes")
	checkAccessorAgreement(c, "pk", "SlashAcksKey")
	checkSetterValues(c, "ck", []string{"OutstandingDowntime"})
	checkSetterValues(c, "pk", []string{"SlashAcks"})

	c.Rule("R5", "provider OnRecvPacket: an error from OnRecvSlashPacket yields an error acknowledgement; a result acknowledgement carries OnRecvSlashPacket's result", 3)
	if f := c.Fn("provider.AppModule.OnRecvPacket"); f != nil {
		on := c.one(f, false, "pk.Keeper.OnRecvSlashPacket")
		if on != nil {
			errV := extractOf(on, 1)
			// any nil-test whose operand can be OnRecvSlashPacket's error
			slashOK := Atom{"OnRecvSlashPacket err == nil", func(leaf ssa.Value) (bool, bool) {
				return AErrNil("", func(v ssa.Value) bool {
					for _, r := range roots(v) {
						if r == errV {
							return true
						}
					}
					return false
				}).Fn(leaf)
			}}
			errAcks := Calls(f, false, "chantypes.NewErrorAcknowledgement")
			resAck := PCall("chantypes.NewResultAcknowledgement", -1, nil, PIs(extractOf(on, 0)))
			nres := 0
			for _, cl := range Calls(f, false, "chantypes.NewResultAcknowledgement") {
				if resAck(cl.Value()) {
					nres++
					c.GuardedBy(cl, fk(f, "result-ack-only-on-success"), slashOK)
				}
			}
			c.Check(nres == 1, fk(f, "result-ack"), on, "the result acknowledgement carries OnRecvSlashPacket's PacketAckResult")
			for _, r := range Returns(f) {
				// every path on which the slash handler failed passes NewErrorAcknowledgement
				rq := NewReach(f)
				for _, e := range errAcks {
					rq.CutInstrs[e] = true
				}
				for _, g := range ifsTesting(f, slashOK.Fn) {
					b := g.If.Block()
					rq.CutEdges[edge{b, b.Succs[g.HoldIdx]}] = true
				}
				c.Check(!rq.After(on)[r], fk(f, "error-ack-on-failure"), r, "after a failing OnRecvSlashPacket every path to the return passes NewErrorAcknowledgement")
			}
		}
	}
}

// successReturnsOf returns r in a slice if r may be a success return.
func successReturnsOf(r *ssa.Return) []*ssa.Return {
	for _, s := range successReturns(r.Parent()) {
		if s == r {
			return []*ssa.Return{r}
		}
	}
	return nil
}

// firstIfTesting returns one branch instruction testing the atom (nil if none).
func firstIfTesting(fn *ssa.Function, a Atom) ssa.Instruction {
	gs := ifsTesting(fn, a.Fn)
	if len(gs) == 0 {
		return fn.Blocks[0].Instrs[0]
	}
	return gs[0].If
}
