package main

import (
	"fmt"
	"regexp"
	"sort"
	"strings"

	"golang.org/x/tools/go/ssa"
)

// Sibling agreement on storage accessors (Engler-style): every keeper function that reads or writes a
// key space directly carries the name of that key space's record; a function touching another
// family's key space (a swapped key constructor compiles, the types are all []byte) is reported.
// The table was frozen from the census of the pinned tree (`icsverif accessors`).
var accessorNames = map[string]map[string]string{
	"pk": {
		"ParametersKey":                                 `Params`,
		"PortKey":                                       `Port`,
		"ValidatorSetUpdateIdKey":                       `ValidatorSetUpdateId`,
		"SlashMeterKey":                                 `SlashMeter$`,
		"SlashMeterReplenishTimeCandidateKey":           `SlashMeterReplenishTimeCandidate`,
		"ConsumerIdToChannelIdKey":                      `ConsumerIdToChannelId`,
		"ChannelToConsumerIdKey":                        `Channel(Id)?ToConsumer`,
		"ConsumerIdToClientIdKey":                       `ConsumerClientId|ConsumersWithIBCClients`,
		"ClientIdToConsumerIdKey":                       `ClientIdToConsumerId|ConsumerClientId`,
		"ValsetUpdateBlockHeightKey":                    `ValsetUpdateBlockHeight`,
		"ConsumerGenesisKey":                            `ConsumerGenesis`,
		"SlashAcksKey":                                  `SlashAck`,
		"InitChainHeightKey":                            `InitChainHeight`,
		"PendingVSCsKey":                                `PendingVSCPackets`,
		"ConsumerValidatorsKey":                         `ValidatorConsumerPubKey`,
		"ValidatorsByConsumerAddrKey":                   `Validators?ByConsumerAddr`,
		"SlashLogKey":                                   `SlashLog`,
		"ConsumerRewardDenomsKey":                       `ConsumerRewardDenom`,
		"EquivocationEvidenceMinHeightKey":              `EquivocationEvidenceMinHeight`,
		"ConsumerValidatorKey":                          `ConsumerValidator$|ConsumerChainConsensusValidatorsKey`,
		"OptedInKey":                                    `OptedIn`,
		"AllowlistKey":                                  `Allow[Ll]ist($|ed$|Empty$)`,
		"DenylistKey":                                   `Deny[Ll]ist`,
		"ConsumerCommissionRateKey":                     `CommissionRate`,
		"MinimumPowerInTopNKey":                         `MinimumPowerInTopN`,
		"ConsumerAddrsToPruneV2Key":                     `ConsumerAddrsToPrune`,
		"LastProviderConsensusValsKey":                  `LastProviderConsensus|LastTotalProviderConsensusPower`,
		"ConsumerIdKey":                                 `[cC]onsumerId$`,
		"ConsumerIdToChainIdKey":                        `ConsumerChainId`,
		"ConsumerIdToOwnerAddress":                      `ConsumerOwnerAddress`,
		"ConsumerIdToMetadataKey":                       `ConsumerMetadata`,
		"ConsumerIdToInitializationParametersKey":       `ConsumerInitializationParameters`,
		"ConsumerIdToPowerShapingParametersKey":         `ConsumerPowerShapingParameters`,
		"ConsumerIdToPhaseKey":                          `ConsumerPhase`,
		"ConsumerIdToRemovalTimeKey":                    `ConsumerRemovalTime`,
		"SpawnTimeToConsumerIdsKeyName":                 `ToBeLaunched`,
		"RemovalTimeToConsumerIdsKeyName":               `ToBeRemoved`,
		"ConsumerIdToAllowlistedRewardDenomKey":         `AllowlistedRewardDenoms`,
		"ConsumerRewardsAllocationByDenomKey":           `ConsumerRewardsAllocationByDenom`,
		"PrioritylistKey":                               `Priority[Ll]ist`,
		"ConsumerIdToInfractionParametersKey":           `^(Get|Set|Delete)InfractionParameters$`,
		"ConsumerIdToQueuedInfractionParametersKeyName": `QueuedInfractionParameters`,
		"InfractionScheduledTimeToConsumerIdsKeyName":   `InfractionUpdate(Schedule|Time)`,
	},
	"ck": {
		"PendingDataPacketsV1Key":         `Pending(Data)?Packet`,
		"PendingPacketsIndexKey":          `PendingPacketsIdx`,
		"SlashRecordKey":                  `SlashRecord`,
		"CrossChainValidatorKey":          `CCValidator`,
		"HeightValsetUpdateIDKey":         `Height(To)?ValsetUpdateID`,
		"HistoricalInfoKey":               `HistoricalInfo`,
		"OutstandingDowntimeKey":          `OutstandingDowntime`,
		"PendingChangesKey":               `PendingChanges`,
		"PreCCVKey":                       `PreCCV`,
		"ProviderChannelIDKey":            `ProviderChannel`,
		"ProviderClientIDKey":             `ProviderClientID`,
		"ParametersKey":                   `Params`,
		"InitGenesisHeightKey":            `InitGenesisHeight`,
		"InitialValSetKey":                `InitialValSet`,
		"LastDistributionTransmissionKey": `LastTransmissionBlockHeight`,
		"PortKey":                         `Port`,
		"PrevStandaloneChainKey":          `PrevStandaloneChain`,
	},
}

// checkAccessorAgreement runs the rule for the key spaces listed (all of the package if none).
func checkAccessorAgreement(c *Ctx, pkg string, spaces ...string) {
	tab := accessorNames[pkg]
	want := map[string]bool{}
	for _, s := range spaces {
		want[s] = true
		if _, ok := tab[s]; !ok {
			c.Undecided("accessor-table/"+s, nil, "key space "+s+" is not in the accessor table")
		}
	}
	n := 0
	seenSpace := map[string]bool{}
	for _, f := range c.P.ModuleFuncs(pkg) {
		if f.Parent() != nil || fnPkgPath(f) != q(pkg) {
			continue
		}
		if o, _ := isOOB(f); o {
			continue
		}
		uses := storeUses(c, f)
		spacesOf := map[string]bool{}
		for _, u := range uses {
			if u.Space != "" && !strings.HasPrefix(u.Space, "param:") {
				spacesOf[u.Space] = true
			}
		}
		var list []string
		for s := range spacesOf {
			list = append(list, s)
		}
		sort.Strings(list)
		for _, sp := range list {
			if len(want) > 0 && !want[sp] {
				continue
			}
			seenSpace[sp] = true
			pat, ok := tab[sp]
			if !ok {
				c.Check(false, fk(f, "key-space", sp), f, "key space "+sp+" has no accessor-name entry (new key space: add it to the table with its accessor family)")
				continue
			}
			n++
			re := regexp.MustCompile(pat)
			c.Check(re.MatchString(f.Name()), fk(f, "key-space", sp), f, fmt.Sprintf("touches key space %s; its accessor family is named /%s/", sp, pat))
		}
	}
	for s := range want {
		c.Check(seenSpace[s], "accessor-table/"+s+"/used", nil, "key space "+s+" is accessed by at least one keeper function")
	}
	c.Check(n >= len(want), "accessor-agreement/"+pkg, nil, fmt.Sprintf("%d (function, key space) pairs agree with the accessor-name table", n))
}

var _ = ssa.NewProgram
