package main

import (
	"go/token"

	"golang.org/x/tools/go/ssa"
)

func init() {
	register(&propDef{
		ID: "C05",
		Explanation: "Decides the guard structure that key uniqueness rests on: the two key-assignment indexes have a closed set of writers; " +
			"AssignConsumerKey writes them only for an active consumer, never when the key is another validator's provider key, never when it is the " +
			"validator's own provider key without a prior assignment, never when the consumer address is already (or still, pending pruning) mapped; both indexes " +
			"are written together with consistent roles; the validator-created hook rejects a consensus key known on any active consumer; the validator-removed hook " +
			"deletes both indexes of the same (consumer, validator) pair; opt-in with a key goes through AssignConsumerKey.",
		NotDecided: []string{"global injectivity of the key->validator relation over all histories (follows from R1-R5 together with C06's pruning discipline; not itself computed)", "staking's own uniqueness of provider consensus keys"},
		Run:        runC05,
	})
	register(&propDef{
		ID: "C06",
		Explanation: "Decides where a replaced key's reverse mapping may be dropped: on a launched consumer AssignConsumerKey schedules the old address for pruning at " +
			"BlockTime+UnbondingTime and cannot delete it; pruning deletes exactly the addresses whose scheduled time is <= the block time, per consumer, over a length-delimited range; " +
			"address resolution returns the mapped validator when a mapping exists and the address itself otherwise; every punishment path resolves the reported address through that function for the same consumer; " +
			"pruning runs for every consumer with a client (also stopped ones) and nothing else deletes the reverse mapping.",
		NotDecided: []string{"the wall-clock bound itself (needs the time order of blocks)", "loss of the mapping when the validator is removed from staking (AfterValidatorRemoved), which the property statement does not exclude"},
		Run:        runC06,
	})
}

// shared patterns for AssignConsumerKey
func akPats() (consumerAddr, providerAddr, oldAddr Pat) {
	consumerAddr = PCall("pt.NewConsumerConsAddress", -1, nil,
		PCall("ccv.TMCryptoPublicKeyToConsAddr", 0, nil, PParam("consumerKey")))
	providerAddr = PCall("pt.NewProviderConsAddress", -1, nil,
		PCall("staking.Validator.GetConsAddr", 0, PParam("validator")))
	oldAddr = PCall("pt.NewConsumerConsAddress", -1, nil,
		PCall("ccv.TMCryptoPublicKeyToConsAddr", 0, nil,
			PCall("pk.Keeper.GetValidatorConsumerPubKey", 0, nil, nil, PParam("consumerId"), providerAddr)))
	return
}

func runC05(c *Ctx) {
	launched, _ := c.ConstVal("pt.CONSUMER_PHASE_LAUNCHED")
	_ = launched

	// ---- R1 who may write the key-assignment state --------------------------------------------
	c.Rule("R1", "writers of the key-assignment indexes: SetValidatorConsumerPubKey/SetValidatorByConsumerAddr only from AssignConsumerKey; deletions only from AssignConsumerKey (pre-launch replacement), pruning, chain deletion and the validator-removed hook", 8)
	c.OnlyCalledFrom("pk.Keeper.SetValidatorConsumerPubKey", "pk.Keeper.AssignConsumerKey")
	c.OnlyCalledFrom("pk.Keeper.SetValidatorByConsumerAddr", "pk.Keeper.AssignConsumerKey")
	c.OnlyCalledFrom("pk.Keeper.DeleteValidatorByConsumerAddr", "pk.Keeper.AssignConsumerKey", "pk.Keeper.PruneKeyAssignments", "pk.Keeper.DeleteKeyAssignments", "pk.Hooks.AfterValidatorRemoved")
	c.OnlyCalledFrom("pk.Keeper.DeleteValidatorConsumerPubKey", "pk.Keeper.DeleteKeyAssignments", "pk.Hooks.AfterValidatorRemoved")
	c.OnlyCalledFrom("pk.Keeper.AppendConsumerAddrsToPrune", "pk.Keeper.AssignConsumerKey")
	// raw store writers of the two key spaces
	for _, ks := range []string{"pt.ConsumerValidatorsKey", "pt.ValidatorsByConsumerAddrKey"} {
		sites, _ := c.Callers(ks)
		for _, s := range sites {
			top := topFn(s.Parent())
			n := shortName(ssaFuncName(top))
			ok := map[string]bool{
				"keeper.Keeper.GetValidatorConsumerPubKey": true, "keeper.Keeper.SetValidatorConsumerPubKey": true, "keeper.Keeper.DeleteValidatorConsumerPubKey": true,
				"keeper.Keeper.GetValidatorByConsumerAddr": true, "keeper.Keeper.SetValidatorByConsumerAddr": true, "keeper.Keeper.DeleteValidatorByConsumerAddr": true,
			}[n]
			c.Check(ok, fk(top, "uses-key", shortName(q(ks))), s, "the key constructor of a key-assignment index is used only by its get/set/delete accessors")
		}
	}

	ak := c.Fn("pk.Keeper.AssignConsumerKey")
	if ak == nil {
		return
	}
	consumerAddr, providerAddr, oldAddr := akPats()
	setPub := c.one(ak, false, "pk.Keeper.SetValidatorConsumerPubKey")
	setRev := c.one(ak, false, "pk.Keeper.SetValidatorByConsumerAddr")
	if setPub == nil || setRev == nil {
		return
	}

	active := ABool("IsConsumerActive(consumerId)", PCall("pk.Keeper.IsConsumerActive", -1, nil, nil, PParam("consumerId")))
	provValExists := AErrNil("staking.GetValidatorByConsAddr(consumerAddr) found",
		PCall("ccv.StakingKeeper.GetValidatorByConsAddr", 1, nil, nil, PCall("pt.ConsumerConsAddress.ToSdkConsAddr", -1, consumerAddr)))
	existingVal := PCall("ccv.StakingKeeper.GetValidatorByConsAddr", 0, nil, nil, PCall("pt.ConsumerConsAddress.ToSdkConsAddr", -1, consumerAddr))
	sameOperator := AEq("existingVal.OperatorAddress == validator.OperatorAddress",
		PField(existingVal, "OperatorAddress"), PField(PParam("validator"), "OperatorAddress"))
	hasAssignment := ABool("GetValidatorConsumerPubKey(consumerId, providerAddr) found",
		PCall("pk.Keeper.GetValidatorConsumerPubKey", 1, nil, nil, PParam("consumerId"), providerAddr))
	addrKnown := ABool("GetValidatorByConsumerAddr(consumerId, consumerAddr) found",
		PCall("pk.Keeper.GetValidatorByConsumerAddr", 1, nil, nil, PParam("consumerId"), consumerAddr))

	// ---- R2 decision chain ------------------------------------------------------------------
	c.Rule("R2", "AssignConsumerKey decision chain: the index writes are unreachable for an inactive consumer, for a key that is another validator's provider key, for the validator's own provider key without an existing assignment, and for a consumer address that is already mapped (assigned or awaiting pruning)", 10)
	for _, set := range []ssa.CallInstruction{setPub, setRev} {
		nm := shortName(calleeName(set))
		c.GuardedBy(set, fk(ak, "guard", nm), active)
		c.UnreachableWhen(set, fk(ak, "reject-other-validators-provider-key", nm), T(provValExists), F(sameOperator))
		c.UnreachableWhen(set, fk(ak, "reject-own-provider-key-without-assignment", nm), T(provValExists), F(hasAssignment))
		c.UnreachableWhen(set, fk(ak, "reject-known-consumer-address", nm), T(addrKnown))
		c.ReachableWhen(set, fk(ak, "accept-fresh-key", nm), T(active), F(provValExists), F(addrKnown))
	}
	// rejections return an error (so the message is rolled back)
	for _, r := range successReturns(ak) {
		c.MustPassWhen(r, []ssa.Instruction{setPub}, fk(ak, "success-implies-written"), nil...)
	}

	// ---- R3 the two indexes are written together, with consistent roles ------------------------
	c.Rule("R3", "both indexes are written together for the same (consumer, validator, key): SetValidatorConsumerPubKey(id, providerAddr(validator), consumerKey) and SetValidatorByConsumerAddr(id, addr(consumerKey), providerAddr(validator)); a pre-launch replacement removes the old reverse entry", 8)
	c.Check(PParam("consumerId")(arg(setPub, 1)) && PParam("consumerId")(arg(setRev, 1)), fk(ak, "same-consumer"), setPub, "both writes use the consumerId parameter")
	c.Check(providerAddr(arg(setPub, 2)), fk(ak, "pubkey-index-key"), setPub, "forward index key = provider address of the validator parameter; found "+describe(arg(setPub, 2)))
	c.Check(PParam("consumerKey")(arg(setPub, 3)), fk(ak, "pubkey-index-value"), setPub, "forward index value = the consumerKey parameter; found "+describe(arg(setPub, 3)))
	c.Check(consumerAddr(arg(setRev, 2)), fk(ak, "reverse-index-key"), setRev, "reverse index key = address derived from the consumerKey parameter; found "+describe(arg(setRev, 2)))
	c.Check(providerAddr(arg(setRev, 3)), fk(ak, "reverse-index-value"), setRev, "reverse index value = provider address of the validator parameter; found "+describe(arg(setRev, 3)))
	for _, r := range successReturns(ak) {
		c.Check(mustPassBefore(r, setPub) && mustPassBefore(r, setRev), fk(ak, "both-on-success"), r, "every success return passes both index writes")
	}
	phaseLaunched := AEq("phase == LAUNCHED", PCall("pk.Keeper.GetConsumerPhase", -1, nil, nil, PParam("consumerId")), PConstInt(launched))
	if del := c.one(ak, false, "pk.Keeper.DeleteValidatorByConsumerAddr"); del != nil {
		c.Check(PParam("consumerId")(arg(del, 1)) && oldAddr(arg(del, 2)), fk(ak, "prelaunch-delete-args"), del, "the pre-launch replacement deletes the reverse entry of the previously assigned key of the same validator; found "+describe(arg(del, 2)))
		for _, r := range successReturns(ak) {
			c.MustPassWhen(r, []ssa.Instruction{del}, fk(ak, "prelaunch-replacement-removes-old"), T(hasAssignment), F(phaseLaunched))
		}
	}

	// ---- R4 validator creation hook ---------------------------------------------------------------
	c.Rule("R4", "AfterValidatorCreated panics when ValidatorConsensusKeyInUse; that function looks the new validator's own consensus address up on every active consumer", 5)
	if h := c.Fn("pk.Hooks.AfterValidatorCreated"); h != nil {
		inUse := ABool("ValidatorConsensusKeyInUse(valAddr)", PCall("pk.Keeper.ValidatorConsensusKeyInUse", -1, nil, nil, PParam("valAddr")))
		for _, r := range Returns(h) {
			c.UnreachableWhen(r, fk(h, "no-return-when-in-use"), T(inUse))
		}
		if len(Panics(h)) == 0 {
			c.Check(false, fk(h, "panics"), h, "the hook has a panic exit")
		}
	}
	if f := c.Fn("pk.Keeper.ValidatorConsensusKeyInUse"); f != nil {
		if look := c.one(f, false, "pk.Keeper.GetValidatorByConsumerAddr"); look != nil {
			valCons := PCall("pt.NewConsumerConsAddress", -1, nil, PCall("staking.Validator.GetConsAddr", 0,
				PCall("ccv.StakingKeeper.GetValidator", 0, nil, nil, PParam("valAddr"))))
			c.Check(valCons(arg(look, 2)), fk(f, "looks-up-own-address"), look, "looks up the consensus address of the validator being created; found "+describe(arg(look, 2)))
			c.Check(inLoop(look) && elementOfCall(arg(look, 1), "pk.Keeper.GetAllActiveConsumerIds"), fk(f, "all-active-consumers"), look, "the lookup runs for every id of GetAllActiveConsumerIds; id has origin "+describe(arg(look, 1)))
			c.VisitsAll(look, fk(f, "no-consumer-skipped"), "lookup over the active consumers", leadsOnlyToConstBoolReturn(true))
			exist := ABool("exist", PIs(extractOf(look, 1)))
			for _, r := range Returns(f) {
				if b, ok := constBool(r.Results[0]); ok && !b {
					c.UnreachableAfterHold(r, fk(f, "false-only-if-none-found"), exist)
				} else if ok && b {
					c.GuardedBy(r, fk(f, "true-only-if-found"), exist)
				} else {
					c.Undecided(fk(f, "return-shape"), r, "non-constant result")
				}
			}
		}
	}
	if f := c.Fn("pk.Keeper.GetAllActiveConsumerIds"); f != nil {
		// ids come from GetAllConsumerIds and are kept iff IsConsumerActive
		act := ABool("IsConsumerActive(id)", PCall("pk.Keeper.IsConsumerActive", -1, nil))
		n := 0
		for _, cl := range AllCalls(f, false) {
			if isCallTo(cl, "builtin.append") {
				n++
				c.GuardedBy(cl, fk(f, "append-only-active"), act)
			}
		}
		c.Check(n > 0, fk(f, "shape"), f, "collects ids by append")
		for _, cl := range Calls(f, false, "pk.Keeper.IsConsumerActive") {
			c.Check(elementOfCall(arg(cl, 1), "pk.Keeper.GetAllConsumerIds"), fk(f, "source"), cl, "iterates GetAllConsumerIds")
			c.VisitsAll(cl, fk(f, "no-id-skipped"), "filter over GetAllConsumerIds")
		}
	}

	// ---- R5 validator removal hook ------------------------------------------------------------
	c.Rule("R5", "AfterValidatorRemoved deletes both indexes of the same (consumer, validator) entry, for entries whose provider address equals the removed validator; genesis import writes both indexes from the exported entries in their roles and export lists both", 3)
	if h := c.Fn("pk.Hooks.AfterValidatorRemoved"); h != nil {
		d1 := c.one(h, false, "pk.Keeper.DeleteValidatorByConsumerAddr")
		d2 := c.one(h, false, "pk.Keeper.DeleteValidatorConsumerPubKey")
		if d1 != nil && d2 != nil {
			entry := func(path ...string) Pat {
				return func(v ssa.Value) bool {
					for i := len(path) - 1; i >= 0; i-- {
						b, n, ok := fieldLoadOf(v)
						if !ok || n != path[i] {
							return false
						}
						v = b
					}
					return elementOfCall(v, "pk.Keeper.GetAllValidatorConsumerPubKeys")
				}
			}
			c.Check(entry("ChainId")(arg(d1, 1)) && entry("ChainId")(arg(d2, 1)), fk(h, "same-consumer"), d1, "both deletions use the entry's ChainId")
			c.Check(PCall("pt.NewConsumerConsAddress", -1, nil, PCall("ccv.TMCryptoPublicKeyToConsAddr", 0, nil, PDeref(entry("ConsumerKey"))))(arg(d1, 2)), fk(h, "reverse-key"), d1,
				"reverse entry deleted = address of the entry's ConsumerKey; found "+describe(arg(d1, 2)))
			c.Check(PCall("pt.NewProviderConsAddress", -1, nil, entry("ProviderAddr"))(arg(d2, 2)), fk(h, "forward-key"), d2, "forward entry deleted = the entry's ProviderAddr; found "+describe(arg(d2, 2)))
			eq := ABool("entry.ProviderAddr == valConsAddr", PCall("sdk.ConsAddress.Equals", -1, entry("ProviderAddr"), PParam("valConsAddr")))
			c.GuardedBy(d1, fk(h, "only-removed-validator", "reverse"), eq)
			c.GuardedBy(d2, fk(h, "only-removed-validator", "forward"), eq)
		}
	}

	// genesis import restores both indexes in their roles
	if f := c.Fn("pk.Keeper.InitGenesis"); f != nil {
		fw := PElemOf(PField(PParam("genState"), "ValidatorConsumerPubkeys"))
		rv := PElemOf(PField(PParam("genState"), "ValidatorsByConsumerAddr"))
		c.ArgRoles(f, "pk.Keeper.SetValidatorConsumerPubKey", "genesis-forward-index", "SetValidatorConsumerPubKey(item.ChainId, provider(item.ProviderAddr), *item.ConsumerKey)",
			PField(fw, "ChainId"), PCall("pt.NewProviderConsAddress", -1, nil, PField(fw, "ProviderAddr")), PDeref(PField(fw, "ConsumerKey")))
		c.ArgRoles(f, "pk.Keeper.SetValidatorByConsumerAddr", "genesis-reverse-index", "SetValidatorByConsumerAddr(item.ChainId, consumer(item.ConsumerAddr), provider(item.ProviderAddr))",
			PField(rv, "ChainId"), PCall("pt.NewConsumerConsAddress", -1, nil, PField(rv, "ConsumerAddr")), PCall("pt.NewProviderConsAddress", -1, nil, PField(rv, "ProviderAddr")))
	}
	if f := c.Fn("pk.Keeper.ExportGenesis"); f != nil {
		if n := c.one(f, false, "pt.NewGenesisState"); n != nil {
			c.Check(PCall("pk.Keeper.GetAllValidatorConsumerPubKeys", -1, nil)(arg(n, 4)) && PCall("pk.Keeper.GetAllValidatorsByConsumerAddr", -1, nil)(arg(n, 5)), fk(f, "exports-both-indexes"), n,
				"exports (GetAllValidatorConsumerPubKeys, GetAllValidatorsByConsumerAddr) in their slots; found "+describe(arg(n, 4))+", "+describe(arg(n, 5)))
		}
	}

	// ---- R6 opt-in with a key ------------------------------------------------------------------
	c.Rule("R6", "HandleOptIn assigns a key only through AssignConsumerKey, for the validator looked up from the opting-in provider address and the same consumer", 2)
	if f := c.Fn("pk.Keeper.HandleOptIn"); f != nil {
		if a := c.one(f, false, "pk.Keeper.AssignConsumerKey"); a != nil {
			c.Check(PParam("consumerId")(arg(a, 1)), fk(f, "same-consumer"), a, "same consumerId")
			c.Check(PCall("ccv.StakingKeeper.GetValidatorByConsAddr", 0, nil, nil, PField(PParam("providerAddr"), "Address"))(arg(a, 2)), fk(f, "same-validator"), a,
				"the validator is looked up from the providerAddr parameter; found "+describe(arg(a, 2)))
			c.Check(PCall("pk.Keeper.ParseConsumerKey", 0, nil, PParam("consumerKey"))(arg(a, 3)), fk(f, "key-arg"), a, "key parsed from the consumerKey parameter")
		}
	}
}

func topFn(f *ssa.Function) *ssa.Function {
	for f.Parent() != nil {
		f = f.Parent()
	}
	return f
}

// extractOf returns the Extract #idx of a call's tuple result (nil if absent).
func extractOf(c ssa.CallInstruction, idx int) ssa.Value {
	v := c.Value()
	if v == nil {
		return nil
	}
	for _, r := range *v.Referrers() {
		if e, ok := r.(*ssa.Extract); ok && e.Index == idx {
			return e
		}
	}
	return nil
}

// elementOfCall: v is an element (range/index) of the slice returned by a call to spec
// (possibly field #idx0 of a tuple), e.g. the loop variable of `for _, x := range k.F(ctx)`.
func elementOfCall(v ssa.Value, specs ...string) bool {
	v = strip(v)
	u, ok := v.(*ssa.UnOp)
	if !ok || u.Op != token.MUL {
		return false
	}
	ia, ok := u.X.(*ssa.IndexAddr)
	if !ok {
		return false
	}
	for _, r := range roots(ia.X) {
		c, _ := callOf(r)
		if c == nil || !isCallTo(c, specs...) {
			return false
		}
	}
	return true
}

// sliceSourceOf returns the roots of the slice v is an element of.
func elementSource(v ssa.Value) []ssa.Value {
	v = strip(v)
	u, ok := v.(*ssa.UnOp)
	if !ok || u.Op != token.MUL {
		return nil
	}
	ia, ok := u.X.(*ssa.IndexAddr)
	if !ok {
		return nil
	}
	return roots(ia.X)
}

// UnreachableAfterHold: target is not reachable from any edge on which the atom holds.
func (c *Ctx) UnreachableAfterHold(target ssa.Instruction, key string, a Atom) bool {
	ok, n := NeverAfterHolds(target, a.Fn)
	d := instrLabel(target) + " is not reachable once " + a.Name + " held"
	if n == 0 {
		d = "no branch tests " + a.Name
	}
	return c.Check(ok, key, target, d)
}
