package main

import (
	"fmt"
	"go/token"

	"golang.org/x/tools/go/ssa"
)

func init() {
	register(&propDef{
		ID: "C12",
		Explanation: "Decides the structural conditions every id/height history relies on: the update-id counter has one run-time writer, " +
			"incremented by exactly one, once per QueueVSCPackets, after all packets of the epoch were stamped with the pre-increment id; " +
			"EndBlockCIS (id -> height+1) runs before EndBlockVSU; the consumer records height+1 -> packet id on receipt and carries the id " +
			"forward every BeginBlock; slash packets carry the id looked up for the infraction height; the provider maps id 0 to the " +
			"channel-opening height and other ids through the id->height table, rejects unknown ids before any effect and slashes at the mapped height; the accessors of the id counter, the id->height table, the init height and the consumer's height->id table use their own key space and store their value parameter.",
		NotDecided: []string{"strict monotonicity as observed on the wire (follows from R1/R2 together with IBC ordered delivery, which is trusted)", "arithmetic of epoch lengths"},
		Run:        runC12,
	})
}

func blockHeightU64(v ssa.Value) bool {
	// uint64(ctx.BlockHeight())
	return isCallResult(v, -1, nil, "sdk.Context.BlockHeight")
}

func runC12(c *Ctx) {
	// ---- R1 ------------------------------------------------------------------------------
	c.Rule("R1", "update-id counter: IncrementValidatorSetUpdateId is used only by QueueVSCPackets, once, outside any loop, on every success path; it stores read+1; SetValidatorSetUpdateId has no other run-time writer", 5)
	c.OnlyCalledFrom("pk.Keeper.IncrementValidatorSetUpdateId", "pk.Keeper.QueueVSCPackets")
	c.OnlyCalledFrom("pk.Keeper.SetValidatorSetUpdateId", "pk.Keeper.IncrementValidatorSetUpdateId")
	queue := c.Fn("pk.Keeper.QueueVSCPackets")
	var incr ssa.CallInstruction
	if queue != nil {
		incr = c.one(queue, true, "pk.Keeper.IncrementValidatorSetUpdateId")
		if incr != nil {
			c.Check(!inLoop(incr) && incr.Parent() == queue, fk(queue, "increment-once"), incr, "the increment is executed at most once per call (not inside the per-consumer loop or a closure)")
			for _, r := range successReturns(queue) {
				c.Check(mustPassBefore(r, incr), fk(queue, "increment-on-success"), r, "every path to a success return passes IncrementValidatorSetUpdateId")
			}
		}
	}
	if f := c.Fn("pk.Keeper.IncrementValidatorSetUpdateId"); f != nil {
		if set := c.one(f, false, "pk.Keeper.SetValidatorSetUpdateId"); set != nil {
			ok := isAddConst(arg(set, 1), 1, func(v ssa.Value) bool { return isCallResult(v, -1, nil, "pk.Keeper.GetValidatorSetUpdateId") })
			c.Check(ok, fk(f, "stores-read+1"), set, "stored value = GetValidatorSetUpdateId() + 1; found "+describe(arg(set, 1)))
		}
	}

	// ---- R2 ------------------------------------------------------------------------------
	c.Rule("R2", "packets are stamped with the id read before the increment, one SSA value for all consumers of the epoch", 2)
	if queue != nil && incr != nil {
		news := Calls(queue, true, "ccv.NewValidatorSetChangePacketData")
		if len(news) == 0 {
			c.Undecided(fk(queue, "stamp"), queue, "no NewValidatorSetChangePacketData call found")
		}
		after := NewReach(queue).After(incr)
		for _, n := range news {
			id := arg(n, 1)
			get, _ := callOf(id)
			ok := get != nil && isCallTo(get, "pk.Keeper.GetValidatorSetUpdateId") && len(roots(id)) == 1
			c.Check(ok, fk(queue, "stamp-origin"), n, "packet id has origin GetValidatorSetUpdateId(ctx); found "+describe(id))
			if ok {
				c.Check(!after[get] && !inLoop(get) && !after[n.(ssa.Instruction)], fk(queue, "stamp-pre-increment"), n,
					"the id is read once, before the increment, and no packet is built after the increment")
			}
		}
	}

	// ---- R3 ------------------------------------------------------------------------------
	c.Rule("R3", "provider EndBlock: EndBlockCIS precedes EndBlockVSU; EndBlockCIS stores (current id -> BlockHeight+1); SetConsumerChain stores init height = BlockHeight; no other run-time writer of these tables", 6)
	if eb := c.Fn("provider.AppModule.EndBlock"); eb != nil {
		cis := c.one(eb, false, "pk.Keeper.EndBlockCIS")
		vsu := c.one(eb, false, "pk.Keeper.EndBlockVSU")
		if cis != nil && vsu != nil {
			c.Check(mustPassBefore(vsu, cis), fk(eb, "CIS-before-VSU"), vsu, "every path to EndBlockVSU passes EndBlockCIS first")
		}
	}
	if f := c.Fn("pk.Keeper.EndBlockCIS"); f != nil {
		if set := c.one(f, false, "pk.Keeper.SetValsetUpdateBlockHeight"); set != nil {
			c.Check(isCallResult(arg(set, 1), -1, nil, "pk.Keeper.GetValidatorSetUpdateId"), fk(f, "id-arg"), set, "id argument = GetValidatorSetUpdateId(ctx); found "+describe(arg(set, 1)))
			c.Check(isAddConst(arg(set, 2), 1, blockHeightU64), fk(f, "height-arg"), set, "height argument = uint64(ctx.BlockHeight()) + 1; found "+describe(arg(set, 2)))
			c.Check(!inLoop(set), fk(f, "once"), set, "written once per block")
		}
	}
	c.OnlyCalledFrom("pk.Keeper.SetValsetUpdateBlockHeight", "pk.Keeper.EndBlockCIS")
	if f := c.Fn("pk.Keeper.SetConsumerChain"); f != nil {
		if set := c.one(f, false, "pk.Keeper.SetInitChainHeight"); set != nil {
			c.Check(blockHeightU64(arg(set, 2)), fk(f, "init-height"), set, "init height = uint64(ctx.BlockHeight()); found "+describe(arg(set, 2)))
			m := c.one(f, false, "pk.Keeper.SetConsumerIdToChannelId")
			if m != nil {
				c.Check(sameVal(arg(set, 1), arg(m, 1)), fk(f, "init-height-id"), set, "init height is stored for the consumer the channel is bound to")
			}
		}
	}
	c.OnlyCalledFrom("pk.Keeper.SetInitChainHeight", "pk.Keeper.SetConsumerChain")

	// ---- R4 ------------------------------------------------------------------------------
	c.Rule("R4", "consumer: OnRecvVSCPacket stores (BlockHeight+1 -> packet id); BeginBlock stores (h+1 -> Get(h)); slash packets carry GetHeightValsetUpdateID(infractionHeight)", 7)
	if f := c.Fn("ck.Keeper.OnRecvVSCPacket"); f != nil {
		if set := c.one(f, false, "ck.Keeper.SetHeightValsetUpdateID"); set != nil {
			c.Check(isAddConst(arg(set, 1), 1, blockHeightU64), fk(f, "height-arg"), set, "height = uint64(ctx.BlockHeight()) + 1; found "+describe(arg(set, 1)))
			c.Check(isFieldOfParam(arg(set, 2), "newChanges", "ValsetUpdateId"), fk(f, "id-arg"), set, "id = newChanges.ValsetUpdateId of the received packet; found "+describe(arg(set, 2)))
			for _, r := range successReturns(f) {
				c.Check(mustPassBefore(r, set), fk(f, "recorded-on-success"), r, "every success return passes the height->id write")
			}
		}
	}
	if f := c.Fn("consumer.AppModule.BeginBlock"); f != nil {
		if set := c.one(f, false, "ck.Keeper.SetHeightValsetUpdateID"); set != nil {
			c.Check(isAddConst(arg(set, 1), 1, blockHeightU64), fk(f, "height-arg"), set, "height = uint64(ctx.BlockHeight()) + 1; found "+describe(arg(set, 1)))
			ok := isCallResult(arg(set, 2), -1, func(g *ssa.Call) bool { return blockHeightU64(arg(g, 1)) }, "ck.Keeper.GetHeightValsetUpdateID")
			c.Check(ok, fk(f, "id-arg"), set, "id = GetHeightValsetUpdateID(ctx, uint64(ctx.BlockHeight())); found "+describe(arg(set, 2)))
			for _, r := range Returns(f) {
				c.Check(mustPassBefore(r, set), fk(f, "carried-forward-always"), r, "every return of BeginBlock passes the carry-forward write")
			}
		}
	}
	c.OnlyCalledFrom("ck.Keeper.SetHeightValsetUpdateID", "ck.Keeper.OnRecvVSCPacket", "consumer.AppModule.BeginBlock")
	// genesis restores the tables with every pair in its roles (both columns are uint64)
	if f := c.Fn("ck.Keeper.InitGenesis"); f != nil {
		elem := PElemOf(PField(PParam("state"), "HeightToValsetUpdateId"))
		nPair, nZero := 0, 0
		for _, set := range Calls(f, false, "ck.Keeper.SetHeightValsetUpdateID") {
			switch {
			case PField(elem, "Height")(arg(set, 1)) && PField(elem, "ValsetUpdateId")(arg(set, 2)):
				nPair++
			case blockHeightU64(arg(set, 1)) && PConstInt(0)(arg(set, 2)):
				nZero++
			default:
				c.Check(false, fk(f, "genesis-height-id-roles"), set, "SetHeightValsetUpdateID(entry.Height, entry.ValsetUpdateId) or (uint64(BlockHeight), 0); found ("+describe(arg(set, 1))+", "+describe(arg(set, 2))+")")
			}
		}
		c.Check(nPair == 1 && nZero == 1, fk(f, "genesis-height-id-roles"), f, fmt.Sprintf("a restart restores every exported (height, id) pair in its roles; a new chain maps its genesis height to id 0 (%d+%d sites)", nPair, nZero))
	}
	if f := c.Fn("ck.Keeper.ExportGenesis"); f != nil {
		n := 0
		for _, cl := range AllCalls(f, false) {
			if isCallTo(cl, "ct.NewRestartGenesisState") {
				n++
				okH := false
				for _, a := range callArgs(cl) {
					if PCall("ck.Keeper.GetAllHeightToValsetUpdateIDs", -1, nil)(a) {
						okH = true
					}
				}
				c.Check(okH, fk(f, "exports-height-id-table"), cl, "the restart genesis carries GetAllHeightToValsetUpdateIDs()")
			}
		}
		c.Check(n >= 1, fk(f, "exports-height-id-table", "census"), f, fmt.Sprintf("%d restart-genesis constructions analysed", n))
	}
	if f := c.Fn("pk.Keeper.InitGenesis"); f != nil {
		gs := PParam("genState")
		if set := c.one(f, false, "pk.Keeper.SetValidatorSetUpdateId"); set != nil {
			c.Check(PField(gs, "ValsetUpdateId")(arg(set, 1)), fk(f, "genesis-counter"), set, "counter := genState.ValsetUpdateId; found "+describe(arg(set, 1)))
		}
		if set := c.one(f, false, "pk.Keeper.SetValsetUpdateBlockHeight"); set != nil {
			e := PElemOf(PField(gs, "ValsetUpdateIdToHeight"))
			c.Check(PField(e, "ValsetUpdateId")(arg(set, 1)) && PField(e, "Height")(arg(set, 2)), fk(f, "genesis-id-height-roles"), set, "SetValsetUpdateBlockHeight(entry.ValsetUpdateId, entry.Height); found ("+describe(arg(set, 1))+", "+describe(arg(set, 2))+")")
		}
		if set := c.one(f, false, "pk.Keeper.SetInitChainHeight"); set != nil {
			e := PElemOf(PField(gs, "ConsumerStates"))
			c.Check(PField(e, "ChainId")(arg(set, 1)) && PField(e, "InitialHeight")(arg(set, 2)), fk(f, "genesis-init-height"), set, "SetInitChainHeight(cs.ChainId, cs.InitialHeight); found ("+describe(arg(set, 1))+", "+describe(arg(set, 2))+")")
		}
	}
	if f := c.Fn("pk.Keeper.ExportGenesis"); f != nil {
		if n := c.one(f, false, "pt.NewGenesisState"); n != nil {
			c.Check(PCall("pk.Keeper.GetValidatorSetUpdateId", -1, nil)(arg(n, 0)) && PCall("pk.Keeper.GetAllValsetUpdateBlockHeights", -1, nil)(arg(n, 1)), fk(f, "exports-counter-and-table"), n, "exports (GetValidatorSetUpdateId, GetAllValsetUpdateBlockHeights) in the first two slots; found "+describe(arg(n, 0))+", "+describe(arg(n, 1)))
		}
	}
	if f := c.Fn("ck.Keeper.SlashWithInfractionReason"); f != nil {
		if qs := c.one(f, false, "ck.Keeper.QueueSlashPacket"); qs != nil {
			ok := isCallResult(arg(qs, 2), -1, func(g *ssa.Call) bool { return isParam(arg(g, 1), "infractionHeight") }, "ck.Keeper.GetHeightValsetUpdateID")
			c.Check(ok, fk(f, "vscid-arg"), qs, "slash packet id = GetHeightValsetUpdateID(ctx, uint64(infractionHeight)); found "+describe(arg(qs, 2)))
		}
	}
	if f := c.Fn("ck.Keeper.QueueSlashPacket"); f != nil {
		if n := c.one(f, false, "ccv.NewSlashPacketData"); n != nil {
			c.Check(isParam(arg(n, 1), "valsetUpdateID"), fk(f, "vscid-threaded"), n, "NewSlashPacketData receives the valsetUpdateID parameter; found "+describe(arg(n, 1)))
		}
	}

	// ---- R5 ------------------------------------------------------------------------------
	c.Rule("R6", "accessor agreement for the id/height tables (consumer height->id map; provider id counter, id->height map, init height): right key space, key arguments by name, setters store their value parameter", 12)
	checkAccessorAgreement(c, "ck", "HeightValsetUpdateIDKey")
	checkCollectors(c, "ck", "GetAllHeightToValsetUpdateIDs")
	checkCollectors(c, "pk", "GetAllValsetUpdateBlockHeights")
	c.KeyShapeIs("ct.HeightValsetUpdateIDKey", "Const(HeightValsetUpdateIDKey)·U64(param:height)", "the height table is exported in ascending height order")
	c.KeyShapeIs("pt.ValsetUpdateBlockHeightKey", "Const(ValsetUpdateBlockHeightKey)·U64(param:valsetUpdateId)", "the id table is keyed by the big-endian update id")
	checkAccessorAgreement(c, "pk", "ValidatorSetUpdateIdKey", "ValsetUpdateBlockHeightKey", "InitChainHeightKey")
	checkKeyArgNames(c, "ck")
	checkSetterValues(c, "ck", []string{"HeightValsetUpdateID"})
	checkSetterValues(c, "pk", []string{"ValidatorSetUpdateId", "ValsetUpdateBlockHeight", "InitChainHeight"})

	c.Rule("R5", "provider mapping: id==0 ? GetInitChainHeight(consumer) : GetValsetUpdateBlockHeight(id); ValidateSlashPacket fails when unmapped and precedes every effect of OnRecvSlashPacket; the slash sink's infraction height is the mapped height", 8)
	if f := c.Fn("pk.Keeper.getMappedInfractionHeight"); f != nil {
		zero := cmpAtom(func(op token.Token, x, y ssa.Value) (bool, bool) {
			if (op == token.EQL || op == token.NEQ) && ((isParam(x, "valsetUpdateID") && valueIsConstInt(0)(y)) || (isParam(y, "valsetUpdateID") && valueIsConstInt(0)(x))) {
				return true, op == token.EQL
			}
			return false, false
		})
		init := c.one(f, false, "pk.Keeper.GetInitChainHeight")
		tab := c.one(f, false, "pk.Keeper.GetValsetUpdateBlockHeight")
		if init != nil && tab != nil {
			g1, _ := Guarded(init, zero)
			g2, _ := Guarded(tab, notAtom(zero))
			c.Check(g1 && isParam(arg(init, 1), "consumerId"), fk(f, "id0-branch"), init, "GetInitChainHeight(ctx, consumerId) is used exactly when valsetUpdateID == 0")
			c.Check(g2 && isParam(arg(tab, 1), "valsetUpdateID"), fk(f, "table-branch"), tab, "GetValsetUpdateBlockHeight(ctx, valsetUpdateID) is used exactly when valsetUpdateID != 0")
			for _, r := range Returns(f) {
				okr := len(r.Results) == 2
				if okr {
					c0, i0 := callOf(r.Results[0])
					c1, i1 := callOf(r.Results[1])
					okr = c0 != nil && c0 == c1 && i0 == 0 && i1 == 1 && (ssa.CallInstruction(c0) == init || ssa.CallInstruction(c0) == tab)
				}
				c.Check(okr, fk(f, "returns-lookup"), r, "returns (height, found) of the selected lookup unchanged")
			}
		}
	}
	mappedFound := func(idArgOK func(v ssa.Value) bool, dataField func(v ssa.Value) bool) AtomFn {
		return func(leaf ssa.Value) (bool, bool) {
			cl, i := callOf(leaf)
			if cl == nil || !isCallTo(cl, "pk.Keeper.getMappedInfractionHeight") || i != 1 {
				return false, false
			}
			if !idArgOK(arg(cl, 1)) || !dataField(arg(cl, 2)) {
				return false, false
			}
			return true, true
		}
	}
	if f := c.Fn("pk.Keeper.ValidateSlashPacket"); f != nil {
		at := mappedFound(func(v ssa.Value) bool { return isParam(v, "consumerId") }, func(v ssa.Value) bool { return isFieldOfParam(v, "data", "ValsetUpdateId") })
		for _, r := range successReturns(f) {
			g, n := Guarded(r, at)
			c.Check(g, fk(f, "nil-only-if-mapped"), r, fmt.Sprintf("the nil return is reached only when getMappedInfractionHeight(ctx, consumerId, data.ValsetUpdateId) found (%d tests)", n))
		}
	}
	if f := c.Fn("pk.Keeper.OnRecvSlashPacket"); f != nil {
		valid := errNilAtom(func(cl *ssa.Call) bool {
			return isCallTo(cl, "pk.Keeper.ValidateSlashPacket") && isParam(arg(cl, 3), "data") &&
				isCallResult(arg(cl, 1), 0, nil, "pk.Keeper.GetChannelIdToConsumerId")
		})
		n := 0
		for _, cl := range AllCalls(f, false) {
			if !isStateEffect(cl) {
				continue
			}
			n++
			g, _ := Guarded(cl, valid)
			c.Check(g, fk(f, "validated-before", shortName(calleeName(cl))), cl, "effect is reached only after ValidateSlashPacket(ctx, consumerId, packet, data) returned nil")
		}
		if n == 0 {
			c.Undecided(fk(f, "effects"), f, "no state effects discovered in OnRecvSlashPacket")
		}
		for _, r := range successReturns(f) {
			g, _ := Guarded(r, valid)
			c.Check(g, fk(f, "ack-only-if-valid"), r, "a result acknowledgement is returned only for validated packets (otherwise an error => error acknowledgement)")
		}
	}
	if f := c.Fn("pk.Keeper.HandleSlashPacket"); f != nil {
		if sl := c.one(f, false, "ccv.StakingKeeper.SlashWithInfractionReason"); sl != nil {
			h := arg(sl, 2)
			ok := isCallResult(h, 0, func(g *ssa.Call) bool {
				return isParam(arg(g, 1), "consumerId") && isFieldOfParam(arg(g, 2), "data", "ValsetUpdateId")
			}, "pk.Keeper.getMappedInfractionHeight")
			c.Check(ok, fk(f, "slash-height"), sl, "slash infraction height = getMappedInfractionHeight(ctx, consumerId, data.ValsetUpdateId); found "+describe(h))
			at := mappedFound(func(v ssa.Value) bool { return isParam(v, "consumerId") }, func(v ssa.Value) bool { return isFieldOfParam(v, "data", "ValsetUpdateId") })
			g, _ := Guarded(sl, at)
			c.Check(g, fk(f, "slash-height-found"), sl, "the slash is reached only when the mapped height was found")
		}
	}
}

// isStateEffect: a call from module code that can write module state or punish: keeper methods
// named Set*/Delete*/Append*/Remove*/Consume*/Increment*/Handle*/Queue*/Send*/Stop*/Jail*/Slash*/Tombstone*/Update*/Clear*/Prune*/Opt*/Assign*/Create*/Launch*/Allocate*,
// external keeper mutators, and store writes.
func isStateEffect(cl ssa.CallInstruction) bool {
	n := calleeName(cl)
	if n == "" {
		return false
	}
	short := n[lastDot(n)+1:]
	switch {
	case hasAnyPrefix(short, "Set", "Delete", "Append", "Remove", "Consume", "Increment", "Handle", "Queue", "Send", "Stop",
		"Jail", "Slash", "Tombstone", "Update", "Clear", "Prune", "OptIn", "OptOut", "Assign", "Create", "Launch", "Allocate",
		"Unjail", "Mint", "Burn", "Change", "Delegate", "Undelegate", "FundCommunityPool", "Write", "ChanCloseInit", "Initialize", "Replenish", "Apply", "Accumulate", "Distribute", "Transfer"):
		// event emission and logging are not state
		if hasAnyPrefix(short, "SetGovKeeper", "SetHooks") {
			return false
		}
		return isModuleOrKeeperCallee(n)
	}
	return false
}

func isModuleOrKeeperCallee(n string) bool {
	return hasAnyPrefix(n, modPath+"/x/", "cosmossdk.io/store/types.KVStore", "cosmossdk.io/core/store.KVStore")
}

func lastDot(s string) int {
	for i := len(s) - 1; i >= 0; i-- {
		if s[i] == '.' {
			return i
		}
	}
	return -1
}

func hasAnyPrefix(s string, ps ...string) bool {
	for _, p := range ps {
		if len(s) >= len(p) && s[:len(p)] == p {
			return true
		}
	}
	return false
}
