#!/bin/sh
# apply a seeded change to /repo, run the checks, undo it straight afterwards
# usage: mutcheck.sh <patch.diff> [property|all]
diff="$1"; prop="${2:-all}"
cd /repo || exit 2
if [ -n "$(git status --porcelain --untracked-files=no)" ]; then echo "repo not clean"; exit 2; fi
git apply "$diff" || exit 2
/verif/bin/icsverif check -property "$prop" 2>&1 | grep -v '^  discharged' | grep -E '^C[0-9]+ tier|VIOLATION|^  (violated|undecided)' | cut -c1-400
git checkout -- . 
git status --porcelain --untracked-files=no
