#!/bin/sh
# Build the analyser offline and warm the Go build cache (one load of /repo).
set -e
cd "$(dirname "$0")"
unset GOWORK GOSUMDB
export GOFLAGS=-mod=mod GOPROXY=off GONOSUMDB='golang.org/x/*' GONOSUMCHECK=1 GOTOOLCHAIN=auto
mkdir -p bin evidence
(cd checker && go build -o ../bin/icsverif .)
./bin/icsverif warm
